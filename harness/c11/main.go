// Harness c11: remote delivery over a healthy link. Two real Systems with remoting enabled talk
// over the in-memory network; how TCP coalesces / splits the byte stream into reads is an
// environment choice. Oracle: exactly once, intact, in order, Sender() designates the original
// sender (Reply reaches it), no decode failure.
package main

import (
	"bytes"
	"fmt"
	"strings"
	"time"

	"github.com/kercylan98/vivid"
	"github.com/kercylan98/vivid/internal/mailbox"
	"github.com/kercylan98/vivid/internal/remoting/serialize"
	"github.com/kercylan98/vivid/internal/verif/vcodec"
	"github.com/kercylan98/vivid/internal/verif/vexp"
	"github.com/kercylan98/vivid/internal/verif/vnet"
	"github.com/kercylan98/vivid/internal/verif/vrt"
	"github.com/kercylan98/vivid/internal/verif/vsys"
)

const addrA, addrB, addrC = "127.0.0.1:1001", "127.0.0.1:1002", "127.0.0.1:1003"

type params struct {
	kind   string // around-undecodable (a message the receiving side cannot decode in the middle of a burst of n valid ones) | receiver-replaced (the receiving actor got mail, was killed, a new actor took its name; then a burst) | at-limit (one message whose encoded frame body is exactly size bytes BELOW the 4 MiB frame limit: size 0..5) | after-rejected (a message rejected by its writer after the writer grew by 70 KB, then n valid ones) | concurrent-asks (two outside goroutines Ask through the system at the same moment; with the happens-before race detector) | bytes-burst (messages with a raw []byte payload, kept by the receiver and compared after the whole burst) | burst | two-senders | first-contact | both-ways | ask | idle-gap | idle-gap-noretry (reconnect limit 0)
	n      int
	size   int    // payload size
	chunks string // all | small
}

func (p params) name() string {
	return fmt.Sprintf("%s/n=%d/size=%d/reads=%s", p.kind, p.n, p.size, p.chunks)
}

func msg(id string, size int) *vcodec.CustomMsg {
	pad := ""
	if size > 0 {
		pad = strings.Repeat("p", size)
	}
	return &vcodec.CustomMsg{N: int32(len(pad)), T: id + "|" + pad}
}

func idOf(m *vcodec.CustomMsg) (string, bool) {
	i := strings.IndexByte(m.T, '|')
	if i < 0 {
		return m.T, false
	}
	return m.T[:i], len(m.T)-i-1 == int(m.N) && strings.Count(m.T[i+1:], "p") == int(m.N)
}

type got struct {
	id     string
	intact bool
	sender string
}

func scenario(p params, bounds []int) *vexp.Scenario {
	cfg := vsys.CoarseSends(400000)
	cfg.SwitchOnNet = true
	if p.kind == "first-contact" {
		// two actors use the remote address for the first time at the same moment: the lazily built
		// per-address mailbox / connection is shared state of package remoting, so its lock and atomic
		// operations are switch points here (fine granularity for remoting, message granularity elsewhere)
		cfg.FinePkgs = []string{"vivid/internal/remoting."}
	}
	return &vexp.Scenario{
		Name:       p.name(),
		Family:     p.kind,
		Cfg:        cfg,
		CheckRaces: p.kind == "concurrent-asks",
		Bounds:     bounds,
		Setup:      func(x *vexp.X) { vsys.CoarseSetupSends() },
		Body: func(x *vexp.X) {
			nw := vnet.Reset()
			if p.chunks == "small" {
				nw.ChunkOptions = func(c *vnet.VConn, avail int) []int {
					opts := []int{avail}
					for _, k := range []int{1, 3, 4, 5, avail / 2, avail - 1} {
						if k >= 1 && k < avail {
							dup := false
							for _, o := range opts {
								if o == k {
									dup = true
								}
							}
							if !dup {
								opts = append(opts, k)
							}
						}
					}
					return opts
				}
			}
			var ropts []vivid.ActorSystemOption
			if p.kind == "idle-gap-noretry" {
				// the link is healthy: nothing may depend on the reconnect machinery
				ropts = append(ropts, vivid.WithActorSystemRemotingOption(vivid.WithActorSystemRemotingReconnect(0, 100*time.Millisecond, time.Second, 2, false)))
			}
			wa := vsys.NewWorld(x, append([]vivid.ActorSystemOption{vivid.WithActorSystemRemoting(addrA), vivid.WithActorSystemDefaultAskTimeout(30 * time.Second)}, ropts...)...)
			wb := vsys.NewWorld(x, append([]vivid.ActorSystemOption{vivid.WithActorSystemRemoting(addrB), vivid.WithActorSystemDefaultAskTimeout(30 * time.Second)}, ropts...)...)
			wa.Quiet, wb.Quiet = true, true
			wa.Start()
			wb.Start()
			var atB, atA []got
			var replies []string
			var keptAtB []*vcodec.BytesMsg
			recv := func(store *[]got) func(a *vsys.Act, ctx vivid.ActorContext, m any) {
				return func(a *vsys.Act, ctx vivid.ActorContext, m any) {
					if bm, ok := m.(*vcodec.BytesMsg); ok {
						keptAtB = append(keptAtB, bm) // kept as delivered; judged after the whole burst
						snd := ""
						if s := ctx.Sender(); s != nil {
							snd = s.GetAddress() + s.GetPath()
						}
						*store = append(*store, got{bm.ID, true, snd})
						return
					}
					cm, ok := m.(*vcodec.CustomMsg)
					if !ok {
						return
					}
					id, intact := idOf(cm)
					snd := ""
					if s := ctx.Sender(); s != nil {
						snd = s.GetAddress() + s.GetPath()
					}
					*store = append(*store, got{id, intact, snd})
					if strings.HasPrefix(id, "ask") {
						ctx.Reply(msg("re:"+id, 0))
					}
				}
			}
			wb.SpawnRoot(&vsys.Script{Name: "echo", OnOther: recv(&atB)})
			wa.SpawnRoot(&vsys.Script{Name: "echo", OnOther: recv(&atA)})
			echoB, _ := wa.Sys.CreateRef(addrB, "/echo")
			echoA, _ := wb.Sys.CreateRef(addrA, "/echo")
			var sent = map[string][]string{} // sender label -> ids in order
			seq := map[string]int{}
			mkSender := func(w *vsys.World, name string, target vivid.ActorRef) {
				w.SpawnRoot(&vsys.Script{Name: name, OnMsg: func(a *vsys.Act, ctx vivid.ActorContext, m vsys.Msg) {
					switch {
					case m.ID == "warm":
						seq[name]++
						id := fmt.Sprintf("%s.%d", name, seq[name])
						sent[name] = append(sent[name], id)
						ctx.Tell(target, msg(id, p.size))
					case m.ID == "go":
						for i := 1; i <= p.n; i++ {
							seq[name]++
							id := fmt.Sprintf("%s.%d", name, seq[name])
							sent[name] = append(sent[name], id)
							if p.kind == "at-limit" {
								// calibrate the padding so that the frame body (the encoded envelope) has exactly the wanted length
								probe, err := serialize.EncodeEnvelopWithRemoting(nil, mailbox.NewEnvelop(false, ctx.Ref(), target, msg(id, 0)))
								if err != nil {
									x.Fail("harness", "calibration encode: %v", err)
									return
								}
								pad := 4<<20 - p.size - len(probe)
								full, _ := serialize.EncodeEnvelopWithRemoting(nil, mailbox.NewEnvelop(false, ctx.Ref(), target, msg(id, pad)))
								if len(full) != 4<<20-p.size {
									x.Fail("harness", "calibration: body is %d bytes, wanted %d", len(full), 4<<20-p.size)
								}
								ctx.Tell(target, msg(id, pad))
								continue
							}
							if p.kind == "around-undecodable" && i == 2 {
								ctx.Tell(target, &vcodec.UnreadableMsg{N: 9}) // encodes fine, the other side's reader rejects it
							}
							if (p.kind == "after-rejected" && i == 1) || ((p.kind == "rejected-amid" || p.kind == "rejected-in-flight") && i == p.n) {
								ctx.Tell(target, &vcodec.PadTagMsg{Pad: bytes.Repeat([]byte{5}, 70000), Tag: strings.Repeat("t", 300)})
							}
							if p.kind == "bytes-burst" {
								ctx.Tell(target, &vcodec.BytesMsg{ID: id, B: bytes.Repeat([]byte{byte(seq[name])}, p.size)})
								continue
							}
							ctx.Tell(target, msg(id, p.size))
						}
					case m.ID == "ask":
						for i := 1; i <= p.n; i++ {
							id := fmt.Sprintf("ask-%s.%d", name, i)
							sent[name] = append(sent[name], id)
							f := ctx.Ask(target, msg(id, p.size))
							vrt.Go("waiter-"+id, func() {
								v, err := f.Result()
								if err != nil {
									replies = append(replies, id+"=ERR:"+err.Error())
									return
								}
								rid, _ := idOf(v.(*vcodec.CustomMsg))
								replies = append(replies, id+"="+rid)
							})
						}
					}
				}})
			}
			mkSender(wa, "s1", echoB)
			var wc *vsys.World
			var atC []got
			if p.kind == "two-peers" {
				// a third system: s2 sends to it while s1 sends to B (two remote mailboxes of A, two connections, nothing shared
				// between the two streams but A's process-wide pools)
				wc = vsys.NewWorld(x, append([]vivid.ActorSystemOption{vivid.WithActorSystemRemoting(addrC), vivid.WithActorSystemDefaultAskTimeout(30 * time.Second)}, ropts...)...)
				wc.Quiet = true
				wc.Start()
				wc.SpawnRoot(&vsys.Script{Name: "echo", OnOther: recv(&atC)})
				echoC, _ := wa.Sys.CreateRef(addrC, "/echo")
				mkSender(wa, "s2", echoC)
			} else {
				mkSender(wa, "s2", echoB)
			}
			mkSender(wb, "t1", echoA)
			vrt.QuiesceNoTimers()
			switch p.kind {
			case "concurrent-asks":
				for g := 1; g <= 2; g++ {
					g := g
					vrt.Go(fmt.Sprintf("outside-asker-%d", g), func() {
						for i := 1; i <= p.n; i++ {
							id := fmt.Sprintf("ask-o%d.%d", g, i)
							v, err := wa.Sys.Ask(echoB, msg(id, p.size)).Result()
							if err != nil {
								replies = append(replies, id+"=ERR:"+err.Error())
								continue
							}
							rid, _ := idOf(v.(*vcodec.CustomMsg))
							replies = append(replies, id+"="+rid)
						}
					})
				}
			case "receiver-replaced":
				wa.Sys.Tell(wa.Ref("/s1"), vsys.Msg{ID: "go"})
				vrt.QuiesceNoTimers()
				wb.Sys.Kill(wb.Ref("/echo"), false, "driver")
				vrt.QuiesceNoTimers()
				if _, err := wb.SpawnRoot(&vsys.Script{Name: "echo", OnOther: recv(&atB)}); err != nil {
					x.Fail("harness", "re-spawn of the receiver: %v", err)
				}
				vrt.QuiesceNoTimers()
				wa.Sys.Tell(wa.Ref("/s1"), vsys.Msg{ID: "go"})
			case "burst", "bytes-burst", "at-limit", "after-rejected", "rejected-amid", "around-undecodable":
				wa.Sys.Tell(wa.Ref("/s1"), vsys.Msg{ID: "go"})
			case "rejected-in-flight":
				// network latency: after a first message has arrived, what A writes on that connection stays in flight until the
				// harness lets it arrive. In the meantime A sends n-1 valid messages, one that its own encoder rejects, and one more.
				wa.Sys.Tell(wa.Ref("/s1"), vsys.Msg{ID: "warm"})
				vrt.QuiesceNoTimers()
				stall := true
				first := len(nw.Conns)
				nw.Stalled = func(c *vnet.VConn) bool { return stall && c.ID < first && !c.Client }
				wa.Sys.Tell(wa.Ref("/s1"), vsys.Msg{ID: "go"})
				vrt.SetHorizon(vrt.Now() + int64(time.Minute))
				vrt.Quiesce()
				vrt.SetHorizon(0)
				stall = false
			case "two-senders", "first-contact", "two-peers":
				wa.Sys.Tell(wa.Ref("/s1"), vsys.Msg{ID: "go"})
				wa.Sys.Tell(wa.Ref("/s2"), vsys.Msg{ID: "go"})
			case "both-ways":
				wa.Sys.Tell(wa.Ref("/s1"), vsys.Msg{ID: "go"})
				wb.Sys.Tell(wb.Ref("/t1"), vsys.Msg{ID: "go"})
			case "ask":
				wa.Sys.Tell(wa.Ref("/s1"), vsys.Msg{ID: "ask"})
			case "idle-gap", "idle-gap-noretry":
				wa.Sys.Tell(wa.Ref("/s1"), vsys.Msg{ID: "go"})
				vrt.QuiesceNoTimers()
				// let virtual time pass beyond the 10 s handshake deadlines, then send again
				vrt.SetHorizon(int64(12 * time.Second))
				vrt.AddTimer(int64(12*time.Second)-vrt.Now(), "gap", func() {})
				vrt.Quiesce()
				vrt.SetHorizon(0)
				wa.Sys.Tell(wa.Ref("/s1"), vsys.Msg{ID: "go"})
			}
			// virtual time may pass (reconnect back-off): up to one minute after the last send
			vrt.SetHorizon(vrt.Now() + int64(time.Minute))
			vrt.Quiesce()
			vrt.SetHorizon(0)
			// ---------------- oracle ----------------
			total := 0
			for _, ids := range sent {
				total += len(ids)
			}
			if total == 0 && p.kind != "concurrent-asks" {
				x.Fail("harness", "nothing was sent")
			}
			check := func(where string, list []got, senders map[string]string) {
				seen := map[string]int{}
				pos := map[string]int{}
				for i, g := range list {
					seen[g.id]++
					pos[g.id] = i
					if !g.intact {
						x.Fail("delivered-intact", "%s received %s with a damaged payload", where, g.id)
					}
					label := g.id
					label = strings.TrimPrefix(label, "ask-")
					label = label[:strings.IndexByte(label, '.')]
					if want, ok := senders[label]; ok && !strings.HasPrefix(g.id, "ask") && g.sender != want {
						x.Fail("sender-designates-origin", "%s received %s with sender %q, the original sender is %q", where, g.id, g.sender, want)
					}
				}
				for _, g := range list {
					label := strings.TrimPrefix(g.id, "ask-")
					if i := strings.IndexByte(label, '.'); i > 0 {
						label = label[:i]
					}
					if _, ok := senders[label]; !ok && !strings.HasPrefix(label, "o") {
						x.Fail("delivered-to-addressee-only", "%s received %s, which was addressed to an actor of another system", where, g.id)
					}
				}
				for label := range senders {
					ids := sent[label]
					for i, id := range ids {
						switch {
						case seen[id] == 0:
							x.Fail("delivered-exactly-once", "%s never received %s (sent %v over a healthy link; received %v; unread bytes %s)", where, id, ids, list, vnet.Net.Summary())
						case seen[id] > 1:
							x.Fail("delivered-exactly-once", "%s received %s %d times", where, id, seen[id])
						}
						if i > 0 && seen[id] > 0 && seen[ids[i-1]] > 0 && pos[ids[i-1]] > pos[id] {
							x.Fail("delivered-in-order", "%s received %s before %s", where, id, ids[i-1])
						}
					}
				}
			}
			for _, bm := range keptAtB {
				var k int
				fmt.Sscanf(bm.ID, "s1.%d", &k)
				if len(bm.B) != p.size || (p.size > 0 && !bytes.Equal(bm.B, bytes.Repeat([]byte{byte(k)}, p.size))) {
					head := bm.B
					if len(head) > 8 {
						head = head[:8]
					}
					x.Fail("delivered-intact", "the payload of %s, inspected after the burst, is no longer what was sent: %d bytes starting % x, expected %d bytes of %02x", bm.ID, len(bm.B), head, p.size, byte(k))
				}
			}
			if p.kind == "two-peers" {
				check("B:/echo", atB, map[string]string{"s1": addrA + "/s1"})
				check("C:/echo", atC, map[string]string{"s2": addrA + "/s2"})
			} else {
				check("B:/echo", atB, map[string]string{"s1": addrA + "/s1", "s2": addrA + "/s2"})
			}
			check("A:/echo", atA, map[string]string{"t1": addrB + "/t1"})
			if p.kind == "concurrent-asks" {
				if len(replies) != 2*p.n {
					x.Fail("reply-reaches-asker", "%d Asks were sent, %d completed: %v", 2*p.n, len(replies), replies)
				}
				for _, r := range replies {
					parts := strings.SplitN(r, "=", 2)
					if parts[1] != "re:"+parts[0] {
						x.Fail("reply-reaches-asker", "Ask %s completed with %s", parts[0], parts[1])
					}
				}
			}
			if p.kind == "ask" {
				if len(replies) != p.n {
					x.Fail("reply-reaches-asker", "%d Asks were sent, %d completed: %v", p.n, len(replies), replies)
				}
				for _, r := range replies {
					parts := strings.SplitN(r, "=", 2)
					if parts[1] != "re:"+parts[0] {
						x.Fail("reply-reaches-asker", "Ask %s completed with %s", parts[0], parts[1])
					}
				}
			}
			for _, w := range []*vsys.World{wa, wb} {
				for _, pb := range w.Pubs {
					if pb.Type == "RemotingMessageDecodeFailedEvent" && p.kind == "around-undecodable" {
						continue // the one message that cannot be decoded
					}
					if pb.Type == "RemotingMessageDecodeFailedEvent" && !((p.kind == "after-rejected" || p.kind == "rejected-amid" || p.kind == "rejected-in-flight") && strings.Contains(fmt.Sprintf("%+v", pb.Event), "PadTagMsg")) {
						x.Fail("no-decode-failure", "a frame failed to decode on a healthy link: %v", pb.Event)
					}
				}
			}
			var oc []string
			for _, g := range atB {
				oc = append(oc, g.id)
			}
			x.Outcome(strings.Join(oc, ",") + "|" + fmt.Sprint(len(atA)) + "|" + strings.Join(replies, ","))
			x.Logf("B got %v; A got %v; replies %v; net %v", oc, len(atA), replies, nw.Log)
			vrt.Freeze() // the oracle has been evaluated: tear-down schedules are not explored
			wa.Sys.Stop()
			wb.Sys.Stop()
			if wc != nil {
				wc.Sys.Stop()
			}
			vrt.Quiesce()
		},
	}
}

func build(tier string) []*vexp.Scenario {
	b0, b1 := []int{0}, []int{0, 1}
	if tier == "thorough" {
		b0, b1 = []int{0, 1}, []int{0, 1, 2}
	}
	var out []*vexp.Scenario
	for _, n := range []int{1, 2, 3, 4} {
		for _, size := range []int{0, 1, 200, 4000, 4090, 4096, 65536} {
			out = append(out, scenario(params{"burst", n, size, "all"}, b0))
			if size <= 200 {
				out = append(out, scenario(params{"burst", n, size, "small"}, b1))
			}
		}
	}
	for _, size := range []int{0, 1, 64, 4000, 4096, 5000} {
		out = append(out, scenario(params{"bytes-burst", 3, size, "all"}, b0))
		if size <= 64 {
			out = append(out, scenario(params{"bytes-burst", 3, size, "small"}, b1))
		}
	}
	for k := 0; k <= 5; k++ {
		out = append(out, scenario(params{"at-limit", 1, k, "all"}, b0))
	}
	for _, n := range []int{3, 4} {
		out = append(out, scenario(params{"around-undecodable", n, 10, "all"}, b1))
		out = append(out, scenario(params{"around-undecodable", n, 10, "small"}, b1))
		out = append(out, scenario(params{"receiver-replaced", n, 10, "all"}, b0))
	}
	for _, n := range []int{1, 3} {
		out = append(out, scenario(params{"after-rejected", n, 10, "all"}, b0))
		if n >= 2 {
			// the rejected message comes after n-1 valid ones that may still be in flight, and before the last one: whatever the
			// sender does about the failed encode, what was sent before it still arrives before what is sent after it
			out = append(out, scenario(params{"rejected-amid", n, 10, "all"}, b1))
			out = append(out, scenario(params{"rejected-amid", n, 4000, "all"}, b1))
			out = append(out, scenario(params{"rejected-in-flight", n, 10, "all"}, b1))
		}
	}
	for _, size := range []int{10, 200} {
		out = append(out, scenario(params{"two-peers", 2, size, "all"}, b1))
	}
	out = append(out, scenario(params{"concurrent-asks", 1, 10, "all"}, b1))
	out = append(out, scenario(params{"concurrent-asks", 2, 10, "all"}, b0))
	b2 := []int{0, 1, 2}
	out = append(out, vexp.Split(12, func() *vexp.Scenario { return scenario(params{"first-contact", 2, 10, "all"}, b2) })...)
	if tier == "thorough" {
		out = append(out, vexp.Split(16, func() *vexp.Scenario { return scenario(params{"first-contact", 3, 10, "all"}, b2) })...)
	}
	// two senders sharing one connection, one of them with frames of 64 KiB and more (whatever a frame is written with, nothing of
	// another sender's frame may land inside it)
	for _, size := range []int{65536, 70000} {
		out = append(out, scenario(params{"two-senders", 2, size, "all"}, b1))
		out = append(out, vexp.Fine(scenario(params{"two-senders", 1, size, "all"}, b1), "vivid/internal/remoting."))
	}
	for _, k := range []string{"two-senders", "both-ways", "ask", "idle-gap", "idle-gap-noretry"} {
		for _, n := range []int{1, 2, 3} {
			out = append(out, scenario(params{k, n, 10, "all"}, b1))
			out = append(out, scenario(params{k, n, 10, "small"}, b1))
		}
	}
	return out
}

func main() { vexp.Main("C11", "c11", build) }
