// Harness c07: System Start / Stop / context-cancel as a one-way state machine that never hangs.
// Sequential strings run in coarse mode on three trees; concurrent pairs run in fine mode
// (every sync/atomic operation is a switch point) under a preemption bound.
package main

import (
	"context"
	"errors"
	"fmt"
	"strings"
	"time"

	"github.com/kercylan98/vivid"
	"github.com/kercylan98/vivid/internal/actor"
	"github.com/kercylan98/vivid/internal/verif/vexp"
	"github.com/kercylan98/vivid/internal/verif/vrt"
	"github.com/kercylan98/vivid/internal/verif/vsys"
)

type call struct {
	op       byte // S start, T stop(), Z stop(0), C cancel
	thread   int
	callSeq  int
	retSeq   int // 0 = never returned
	res      string
	vtimeRet int64
}

func classify(err error) string {
	switch {
	case err == nil:
		return "nil"
	case errors.Is(err, vivid.ErrorActorSystemAlreadyStarted):
		return "already-started"
	case errors.Is(err, vivid.ErrorActorSystemAlreadyStopped):
		return "already-stopped"
	case errors.Is(err, vivid.ErrorActorSystemNotStarted):
		return "not-started"
	case errors.Is(err, vivid.ErrorActorSystemStopFailed):
		return "stop-failed"
	case errors.Is(err, vivid.ErrorActorSystemStartFailed):
		return "start-failed"
	}
	return "other:" + err.Error()
}

// reference machine: returns the set of legal results of op in state st, and the next state.
// st: 0 ready, 1 started, 2 stopped
func legal(st int, op byte) (results []string, next int) {
	switch op {
	case 'S':
		switch st {
		case 0:
			return []string{"nil"}, 1
		case 1:
			return []string{"already-started"}, 1
		default:
			return []string{"already-stopped"}, 2
		}
	case 'T':
		switch st {
		case 0:
			return []string{"not-started"}, 0
		case 1:
			return []string{"nil", "stop-failed"}, 2 // stop-failed only once the timeout has passed (rule stop-timeout)
		default:
			return []string{"already-stopped"}, 2
		}
	case 'A':
		// ActorOf from an outside goroutine: succeeds or is refused, never changes the machine's state
		return []string{"nil", "refused"}, st
	case 'Z':
		switch st {
		case 0:
			return []string{"not-started"}, 0
		case 1:
			return []string{"nil", "stop-failed"}, 2 // a zero timeout may or may not win the race with termination
		default:
			return []string{"already-stopped"}, 2
		}
	}
	return nil, st
}

// linearizable reports whether some order of the calls, consistent with real time, is a run
// of the reference machine. Cancel is asynchronous: it takes effect (like Stop) at any point
// after its call; a Cancel that lands before the first Start makes the rest unconstrained.
func linearizable(calls []*call) bool {
	n := len(calls)
	used := make([]bool, n)
	var rec func(done int, st int, free bool) bool
	rec = func(done int, st int, free bool) bool {
		if done == n {
			return true
		}
		for i, c := range calls {
			if used[i] {
				continue
			}
			// real-time order: every call that returned before c was called must be placed already
			ok := true
			for j, d := range calls {
				if !used[j] && j != i && d.op != 'C' && d.retSeq != 0 && d.retSeq < c.callSeq {
					ok = false
					break
				}
				// program order inside a thread
				if !used[j] && j != i && d.thread == c.thread && d.callSeq < c.callSeq && d.op != 'C' {
					ok = false
					break
				}
			}
			if !ok {
				continue
			}
			used[i] = true
			if c.op == 'C' {
				ns, nf := st, free
				if st == 1 {
					ns = 2
				} else if st == 0 {
					nf = true
				}
				if rec(done+1, ns, nf) {
					return true
				}
			} else if c.retSeq == 0 {
				// never returned: judged by the no-hang rule, unconstrained here
				if rec(done+1, st, true) {
					return true
				}
			} else if free {
				if rec(done+1, st, true) {
					return true
				}
			} else {
				rs, ns := legal(st, c.op)
				for _, r := range rs {
					if r == c.res && rec(done+1, ns, false) {
						return true
					}
				}
			}
			used[i] = false
		}
		return false
	}
	return rec(0, 0, false)
}

// released lets the slow actor of tree "slow" finish its OnKill handler
var released bool

func tree(w *vsys.World, kind string) []string {
	switch kind {
	case "panicky":
		// a parent that panics when it is told of a child's death - also when that happens because the system is stopping
		w.SpawnRoot(&vsys.Script{Name: "a", Children: []*vsys.Script{{Name: "g"}, {Name: "h"}},
			OnKilled: func(a *vsys.Act, ctx vivid.ActorContext, m *vivid.OnKilled) {
				if m.Ref.GetPath() != "/a" {
					panic("scripted panic in the child-death handler")
				}
			}})
		return []string{"/a", "/a/g", "/a/h"}
	case "slow":
		// an actor that takes its time to die: its OnKill handler returns only when the harness says so
		w.SpawnRoot(&vsys.Script{Name: "a", OnKill: func(a *vsys.Act, ctx vivid.ActorContext, m *vivid.OnKill) {
			vrt.Block(vrt.KYield, 0, "slow OnKill of /a", func() bool { return released })
		}})
		return []string{"/a"}
	case "one":
		w.SpawnRoot(&vsys.Script{Name: "a"})
		return []string{"/a"}
	case "two":
		w.SpawnRoot(&vsys.Script{Name: "a", Children: []*vsys.Script{{Name: "g"}}})
		return []string{"/a", "/a/g"}
	}
	return nil
}

func scenario(name string, threads []string, treeKind string, fine bool, bounds []int) *vexp.Scenario {
	cfg := vsys.Coarse(100000)
	if fine {
		cfg = vrt.Config{Cost: vrt.CostDelay, StepBudget: 100000, SpinLimit: 200}
	}
	anyZ := strings.Contains(strings.Join(threads, ""), "Z")
	cfg.TimerRace = anyZ && !fine
	var calls []*call
	var w *vsys.World
	var expectActors []string
	return &vexp.Scenario{
		Name:   name,
		Family: map[bool]string{true: "concurrent-fine", false: "sequential-coarse"}[fine],
		Cfg:    cfg,
		Bounds: bounds,
		Setup:  func(x *vexp.X) { vsys.CoarseSetup() },
		Body: func(x *vexp.X) {
			calls = nil
			released = false
			ctx, cancel := context.WithCancel(context.Background())
			sysOpts := []vivid.ActorSystemOption{vivid.WithActorSystemContext(ctx), vivid.WithActorSystemStopTimeout(time.Minute)}
			if treeKind == "panicky" {
				sysOpts = append(sysOpts, vivid.WithActorSystemSupervisionStrategy(vivid.OneForOneStrategy(vivid.SupervisionStrategyDecisionMakerFN(
					func(vivid.SupervisionContext) (vivid.SupervisionDecision, string) { return vivid.SupervisionDecisionRestart, "scripted" }))))
			}
			w = vsys.NewWorld(x, sysOpts...)
			w.Quiet = true
			seq := 0
			lateN := 0
			spawned := false
			run := func(ti int, ops string) {
				for i := 0; i < len(ops); i++ {
					c := &call{op: ops[i], thread: ti}
					seq++
					c.callSeq = seq
					calls = append(calls, c)
					switch c.op {
					case 'S':
						err := w.Sys.Start()
						c.res = classify(err)
						if err == nil && !spawned {
							spawned = true
							expectActors = tree(w, treeKind)
						}
					case 'A':
						lateN++
						if _, err := w.SpawnRoot(&vsys.Script{Name: fmt.Sprintf("late%d", lateN)}); err != nil {
							c.res = "refused"
						} else {
							c.res = "nil"
						}
					case 'T':
						c.res = classify(w.Sys.Stop())
					case 'Z':
						c.res = classify(w.Sys.Stop(0))
					case 'C':
						cancel()
						c.res = "-"
					}
					seq++
					c.retSeq = seq
					c.vtimeRet = vrt.Now()
					vrt.Yield()
				}
			}
			if len(threads) == 1 {
				run(0, threads[0])
			} else {
				if treeKind != "none" {
					// concurrent strings on a populated tree start from the started state: spawning
					// while another thread stops the system is outside this property (see C10)
					run(9, "S")
					vrt.Quiesce()
				}
				for ti, ops := range threads {
					ti, ops := ti, ops
					vrt.Go(fmt.Sprintf("caller%d", ti), func() { run(ti, ops) })
				}
			}
			vrt.Quiesce()
			if treeKind == "slow" {
				// every call has returned although /a has not finished dying (a zero timeout means no waiting); now /a may finish
				released = true
				vrt.Quiesce()
			}
			var rs []string
			for _, c := range calls {
				r := c.res
				if c.retSeq == 0 {
					r = "HUNG"
				}
				rs = append(rs, fmt.Sprintf("t%d:%c=%s", c.thread, c.op, r))
			}
			x.Logf("results %v", rs)
			x.Outcome(strings.Join(rs, " "))
		},
		Post: func(x *vexp.X, r *vrt.Result) {
			stoppedCleanly, cancelledAfterStart := false, false
			started := false
			for _, c := range calls {
				if c.retSeq == 0 {
					x.Fail("call-returns", "call %c on thread %d never returned (threads blocked at the end: %v)", c.op, c.thread, r.Blocked)
				}
				if c.op == 'S' && c.res == "nil" {
					started = true
				}
				if (c.op == 'T' || c.op == 'Z') && c.res == "nil" {
					stoppedCleanly = true
				}
				if c.op == 'C' && started {
					cancelledAfterStart = true
				}
				if c.res == "stop-failed" && c.op == 'T' && !anyZ {
					// no actor in these scenarios is slow and nobody stops with a zero timeout: giving up is a failure to terminate
					x.Fail("stop-within-timeout", "Stop gave up with ErrorActorSystemStopFailed at virtual time %v although no actor is slow (registry at the end: %v; threads: %v)", time.Duration(c.vtimeRet), actor.VerifSys(w.Sys).Registry, r.Blocked)
				}
				if c.res == "stop-failed" && c.op == 'T' && c.vtimeRet < int64(time.Minute) {
					x.Fail("stop-timeout", "Stop returned stop-failed at virtual time %v, before its timeout of 1m", time.Duration(c.vtimeRet))
				}
				if strings.HasPrefix(c.res, "other:") || c.res == "start-failed" {
					x.Fail("return-values", "unexpected error from %c: %s", c.op, c.res)
				}
			}
			if !linearizable(calls) {
				var rs []string
				for _, c := range calls {
					rs = append(rs, fmt.Sprintf("t%d:%c=%s[%d,%d]", c.thread, c.op, c.res, c.callSeq, c.retSeq))
				}
				x.Fail("return-values", "results %v are not a run of the ready->started->stopped machine", rs)
			}
			if stoppedCleanly || cancelledAfterStart {
				sys := actor.VerifSys(w.Sys)
				if len(sys.Registry) > 0 {
					x.Fail("stop-terminates-all", "system stopped but the registry still holds %v", sys.Registry)
				}
				killed := map[string]bool{}
				for _, p := range w.PubsOf("ActorKilledEvent") {
					killed[p.Ref] = true
				}
				expectActors = nil
				for _, p := range w.PubsOf("ActorSpawnedEvent") {
					expectActors = append(expectActors, p.Ref)
				}
				for _, a := range expectActors {
					if !killed[a] {
						x.Fail("stop-terminates-all", "system stopped but %s was never reported terminated", a)
					}
				}
				stopFailed := false
				for _, c := range calls {
					if c.res == "stop-failed" {
						stopFailed = true
					}
				}
				for _, b := range r.Blocked {
					if (stopFailed || r.VNow >= int64(time.Minute)) && strings.Contains(b, "quartz-loop") {
						continue // a Stop that timed out does not release the scheduler; not judged here
					}
					x.Fail("no-thread-left", "system stopped but a thread is still blocked: %s", b)
				}
			} else {
				for _, b := range r.Blocked {
					if strings.Contains(b, "caller") || strings.Contains(b, "main") {
						x.Fail("call-returns", "caller thread blocked forever: %s", b)
					}
				}
			}
		},
	}
}

func seqStrings(maxLen int) []string {
	alpha := "STZC"
	out := []string{}
	var rec func(s string)
	rec = func(s string) {
		if len(s) > 0 {
			out = append(out, s)
		}
		if len(s) == maxLen {
			return
		}
		for i := 0; i < len(alpha); i++ {
			rec(s + string(alpha[i]))
		}
	}
	rec("")
	return out
}

func build(tier string) []*vexp.Scenario {
	var out []*vexp.Scenario
	maxLen := 3
	if tier == "thorough" {
		maxLen = 4
	}
	for _, s := range []string{"ST", "SC", "SZ", "SZT", "SCT", "STT"} {
		out = append(out, scenario(fmt.Sprintf("seq/%s/tree=panicky", s), []string{s}, "panicky", false, []int{0, 1}))
	}
	for _, s := range []string{"SZ", "SZZ", "SZS", "SCZ"} {
		out = append(out, scenario(fmt.Sprintf("seq/%s/tree=slow", s), []string{s}, "slow", false, []int{0, 1}))
	}
	for _, tk := range []string{"none", "one", "two"} {
		for _, s := range seqStrings(maxLen) {
			out = append(out, scenario(fmt.Sprintf("seq/%s/tree=%s", s, tk), []string{s}, tk, false, []int{0, 1}))
		}
	}
	pairs := [][]string{
		{"A", "T"}, {"A", "C"}, {"AA", "T"}, {"S", "S"}, {"S", "T"}, {"ST", "T"}, {"ST", "Z"}, {"ST", "C"}, {"ST", "S"}, {"STT", "T"}, {"SC", "T"}, {"ST", "TS"}, {"SZ", "T"}, {"SCT", "T"},
	}
	fb := []int{0, 1, 2}
	if tier == "thorough" {
		fb = []int{0, 1, 2, 3}
		pairs = append(pairs, []string{"STS", "ST"}, []string{"SC", "C"}, []string{"SZ", "Z"}, []string{"S", "TT"})
	}
	for _, p := range pairs {
		for _, tk := range []string{"none", "one"} {
			if tk == "none" && strings.Contains(strings.Join(p, ""), "A") {
				continue // ActorOf needs a started system; with a tree the concurrent part starts from the started state
			}
			out = append(out, scenario(fmt.Sprintf("par/%s/tree=%s", strings.Join(p, "|"), tk), p, tk, true, fb))
		}
	}
	return out
}

func main() { vexp.Main("C07", "c07", build) }
