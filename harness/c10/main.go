// Harness c10: the documented-concurrent API called from several threads while root children
// are dying / failing / restarting. Fine-grained scheduling (every sync/atomic operation is a
// switch point, delay-bounded) with the happens-before race detector on.
package main

import (
	"fmt"
	"sort"
	"strings"
	"time"

	"github.com/kercylan98/vivid"
	"github.com/kercylan98/vivid/internal/actor"
	"github.com/kercylan98/vivid/internal/verif/vexp"
	"github.com/kercylan98/vivid/internal/verif/vrt"
	"github.com/kercylan98/vivid/internal/verif/vsys"
)

type ev struct{ ID string }
type req struct{ ID string }

var bodyNames = []string{"spawn", "kill", "tell", "ask", "find", "es", "fut", "ref"}

func scenario(bodies []string, life string, bounds []int) *vexp.Scenario {
	return &vexp.Scenario{
		Name:       strings.Join(bodies, "|") + "/life=" + life,
		Family:     "life=" + life,
		Cfg:        vrt.Config{Cost: vrt.CostDelay, StepBudget: 150000, SpinLimit: 300},
		Bounds:     bounds,
		CheckRaces: true,
		Body: func(x *vexp.X) {
			opts := []vivid.ActorSystemOption{vivid.WithActorSystemDefaultAskTimeout(2 * time.Second)}
			if life == "restarting" {
				// the root's strategy decides for root children
				opts = append(opts, vivid.WithActorSystemSupervisionStrategy(vivid.OneForOneStrategy(vivid.SupervisionStrategyDecisionMakerFN(
					func(vivid.SupervisionContext) (vivid.SupervisionDecision, string) {
						return vivid.SupervisionDecisionRestart, "scripted"
					}))))
			}
			w := vsys.NewWorld(x, opts...)
			w.Quiet = true
			w.Start()
			askAddr := "" // the reply address of the Ask that is left pending (what ctx.Sender() showed its recipient)
			replier := func(a *vsys.Act, ctx vivid.ActorContext, m any) {
				if r, ok := m.(req); ok && r.ID != "silent" {
					ctx.Reply(ev{ID: "re:" + r.ID})
				} else if ok && ctx.Sender() != nil {
					askAddr = ctx.Sender().GetAddress() + ctx.Sender().GetPath()
				}
			}
			boom := func(a *vsys.Act, ctx vivid.ActorContext, m vsys.Msg) {
				if m.ID == "boom" {
					panic("scripted")
				}
			}
			for _, n := range []string{"a", "k", "f"} {
				if _, err := w.SpawnRoot(&vsys.Script{Name: n, OnOther: replier, OnMsg: boom, Children: []*vsys.Script{{Name: "c"}}}); err != nil {
					x.Fail("harness", "spawn %s: %v", n, err)
				}
			}
			// an actor held inside a handler, so that a backlog builds up in its mailbox (queue growth under concurrent senders)
			released, flooded, floodSeen := false, 0, 0
			hasFlood := strings.Contains(strings.Join(bodies, "|"), "flood")
			if hasFlood {
				w.SpawnRoot(&vsys.Script{Name: "h", OnMsg: func(a *vsys.Act, ctx vivid.ActorContext, m vsys.Msg) {
					switch {
					case m.ID == "hold":
						vrt.Block(vrt.KYield, 0, "held handler of /h", func() bool { return released })
					case strings.HasPrefix(m.ID, "flood"):
						floodSeen++
					}
				}})
			}
			vrt.QuiesceNoTimers()
			if hasFlood {
				w.Sys.Tell(w.Ref("/h"), vsys.Msg{ID: "hold"})
				vrt.QuiesceNoTimers()
			}
			sys := w.Sys
			refA, refK, refF := w.Ref("/a"), w.Ref("/k"), w.Ref("/f")
			shared := w.Ref("/a") // a reference object shared by several threads
			silent := sys.Ask(refA, req{ID: "silent"}, 2*time.Second)
			vrt.QuiesceNoTimers()
			// a forwarders list shared by every thread that pipes: the same actor under three reference objects, then another actor
			sharedFwd := vivid.ActorRefs{refF, refF.Clone(), w.Ref("/f"), refK}
			sharedFwdWas := fmt.Sprint(sharedFwd)
			dupWinners := 0
			run := func(ti int, b string) {
				switch b {
				case "spawn":
					if _, err := w.SpawnRoot(&vsys.Script{Name: fmt.Sprintf("n%d", ti)}); err != nil {
						x.Logf("spawn: %v", err)
					}
				case "spawn-same":
					// several threads race for the same name: exactly one wins, the others get an error, the winner stays intact
					if _, err := w.SpawnRoot(&vsys.Script{Name: "dup"}); err != nil {
						x.Logf("spawn-same: %v", err)
					} else {
						dupWinners++
					}
				case "kill":
					sys.Kill(refA, false, "api")
				case "flood":
					// 140 messages per thread: two threads cross the queue's first growth boundary (256) together
					rh := w.Ref("/h")
					for i := 0; i < 140; i++ {
						sys.Tell(rh, vsys.Msg{ID: fmt.Sprintf("flood%d.%d", ti, i)})
						flooded++
					}
				case "tell":
					sys.Tell(shared, vsys.Msg{ID: "hello"})
					sys.Tell(refF, vsys.Msg{ID: "hello"})
				case "ask":
					if _, err := sys.Ask(shared, req{ID: fmt.Sprintf("q%d", ti)}).Result(); err != nil {
						x.Logf("ask: %v", err)
					}
				case "find":
					sys.FindActor("localhost/a")
					sys.FindActor("localhost/k")
					sys.ParseRef("localhost/f")
					if askAddr != "" {
						// a path that IS in the registry but is not an actor: the reply address of an Ask in flight
						if r, err := sys.FindActor(askAddr); err == nil {
							x.Logf("FindActor(%s) = %v", askAddr, r)
						}
					}
				case "es":
					sys.EventStream().Subscribe(sys, ev{})
					sys.EventStream().Publish(sys, ev{ID: "e"})
					sys.EventStream().Unsubscribe(sys, ev{})
				case "fut":
					silent.PipeTo(vivid.ActorRefs{refF})
					silent.Close(nil)
					silent.PipeTo(sharedFwd) // after completion too, with the list other threads use as well
				case "ref":
					c := shared.Clone()
					_ = c.Equals(shared)
					_ = shared.String()
					sys.Tell(c, vsys.Msg{ID: "via-clone"})
				}
			}
			for ti, b := range bodies {
				ti, b := ti, b
				vrt.Go(fmt.Sprintf("api%d-%s", ti, b), func() { run(ti, b) })
			}
			// the lifecycle transition racing the API calls
			var stopErr error
			switch life {
			case "dying":
				sys.Kill(refK, false, "driver")
			case "failing", "restarting":
				sys.Tell(refF, vsys.Msg{ID: "boom"})
			case "stopping":
				// the whole system is stopped while the API calls are in flight: whatever they managed to create goes down with it
				stopErr = sys.Stop()
			}
			vrt.Quiesce()
			if hasFlood {
				released = true
				vrt.Quiesce()
				if floodSeen != flooded {
					x.Fail("no-message-lost-under-concurrent-senders", "%d messages were sent to /h by concurrent threads while it was busy, it processed %d of them", flooded, floodSeen)
				}
			}
			if got := fmt.Sprint(sharedFwd); got != sharedFwdWas {
				x.Fail("arguments-untouched", "the forwarders list handed to Future.PipeTo was %s before and is %s afterwards: the caller's slice was written", sharedFwdWas, got)
			}
			if strings.Contains(strings.Join(bodies, "|"), "spawn-same") {
				if dupWinners != 1 {
					x.Fail("tree-consistent", "%d concurrent ActorOf calls for the name dup succeeded", dupWinners)
				}
				if _, err := sys.FindActor("localhost/dup"); err != nil {
					x.Fail("tree-consistent", "the actor that won the race for the name dup cannot be found afterwards: %v", err)
				}
			}
			// ---------------- oracle: tree consistency ----------------
			sysd := actor.VerifSys(sys)
			reg := map[string]bool{}
			for _, r := range sysd.Registry {
				reg[r] = true
			}
			tables := map[string]bool{}
			for _, c := range append([]*actor.Context{actor.VerifRoot(sys)}, sysd.Contexts...) {
				d := actor.VerifCtx(c)
				for _, ch := range d.Children {
					tables[ch] = true
				}
				if d.State != 0 && !d.Zombie && d.Path != "/" {
					x.Fail("tree-consistent", "%s is registered but in state %d at quiescence", d.Path, d.State)
				}
			}
			var diff []string
			for r := range reg {
				if !tables[r] {
					diff = append(diff, "registered-but-in-no-children-table:"+r)
				}
			}
			for t := range tables {
				if !reg[t] {
					diff = append(diff, "in-a-children-table-but-not-registered:"+t)
				}
			}
			sort.Strings(diff)
			if len(diff) > 0 {
				x.Fail("tree-consistent", "registry and children tables disagree at quiescence: %v", diff)
			}
			killed := map[string]int{}
			for _, pb := range w.PubsOf("ActorKilledEvent") {
				killed[pb.Ref]++
			}
			for p, n := range killed {
				if n > 1 && !strings.HasPrefix(p, "/f") {
					x.Fail("tree-consistent", "%s was reported terminated %d times", p, n)
				}
			}
			x.Outcome(fmt.Sprintf("%v", sysd.Registry))
			if life == "stopping" {
				if stopErr != nil {
					x.Fail("stop-works", "System.Stop racing %v: %v", bodies, stopErr)
				}
			} else if err := sys.Stop(); err != nil {
				x.Fail("stop-works", "System.Stop after the scenario: %v", err)
			}
			vrt.Quiesce()
			if r := actor.VerifSys(sys).Registry; len(r) != 0 {
				x.Fail("stop-terminates-all", "after System.Stop the registry still holds %v", r)
			}
		},
		Post: func(x *vexp.X, r *vrt.Result) {
			for _, b := range r.Blocked {
				x.Fail("no-stuck-call", "thread blocked forever: %s", b)
			}
		},
	}
}

func build(tier string) []*vexp.Scenario {
	// happens-before race detection does not need the racing accesses to be adjacent: bound 0
	// already reports every pair of conflicting accesses the default schedule leaves unordered.
	// Deviations add schedules in which other code paths run (and the consistency oracle).
	wide, narrow := []int{0}, []int{0, 1}
	if tier == "thorough" {
		wide, narrow = []int{0, 1}, []int{0, 1, 2}
	}
	var out []*vexp.Scenario
	for _, life := range []string{"dying", "failing", "restarting"} {
		for i, a := range bodyNames {
			for _, b := range bodyNames[i:] {
				bd := wide
				if a == "spawn" || b == "spawn" || (a == "kill" && b == "kill") || (a == "fut" && b == "fut") {
					bd = narrow
				}
				out = append(out, scenario([]string{a, b}, life, bd))
			}
		}
	}
	for _, tr := range [][]string{{"spawn", "kill", "tell"}, {"ask", "kill", "find"}, {"es", "es", "kill"}, {"fut", "fut", "ask"}, {"spawn", "spawn", "spawn"}, {"ref", "tell", "kill"}} {
		out = append(out, scenario(tr, "dying", wide))
	}
	for _, life := range []string{"dying", "failing"} {
		out = append(out, scenario([]string{"spawn-same", "spawn-same"}, life, narrow))
		out = append(out, scenario([]string{"spawn-same", "spawn-same", "spawn-same"}, life, wide))
	}
	// concurrent senders pushing one mailbox queue across its growth boundary
	out = append(out, scenario([]string{"flood", "flood"}, "dying", []int{0}))
	// System.Stop racing the calls (the root is stopping, its children terminate one after the other)
	for _, b := range []string{"spawn", "tell", "ask", "find", "es", "kill"} {
		b := b
		if b == "spawn" || b == "ask" {
			// (ask: the registration of a System.Ask racing the root's sweep of its pending Asks needs two deviations - fix 02926c2)
			out = append(out, vexp.Split(16, func() *vexp.Scenario { return scenario([]string{b}, "stopping", []int{0, 1, 2}) })...)
			continue
		}
		out = append(out, scenario([]string{b}, "stopping", narrow))
	}
	out = append(out, scenario([]string{"spawn", "spawn"}, "stopping", narrow))
	out = append(out, scenario([]string{"flood", "flood", "tell"}, "failing", []int{0}))
	return out
}

func main() { vexp.Main("C10", "c10", build) }
