// Harness c02ctx: Stash/Unstash order and kill-vs-queue priority through the real Context
// (coarse scheduling).
package main

import (
	"fmt"
	"strconv"
	"strings"
	"time"

	"github.com/kercylan98/vivid"
	"github.com/kercylan98/vivid/internal/actor"
	"github.com/kercylan98/vivid/internal/verif/vexp"
	"github.com/kercylan98/vivid/internal/verif/vrt"
	"github.com/kercylan98/vivid/internal/verif/vsys"
)

// script tokens: "S" stash the next numbered message, "P" process it, "U" Unstash(), "U<n>" Unstash(n)
// viaSched: the numbered messages reach the actor through the Scheduler API (Once from another actor) instead of Tell
func stashScenario(script []string, bounds []int, viaSched bool) *vexp.Scenario {
	return &vexp.Scenario{
		Name:   map[bool]string{false: "stash/", true: "stash-scheduled/"}[viaSched] + strings.Join(script, ","),
		Family: "stash",
		Cfg:    vsys.Coarse(60000),
		Bounds: bounds,
		Setup:  func(x *vexp.X) { vsys.CoarseSetup() },
		Body: func(x *vexp.X) {
			w := vsys.NewWorld(x)
			w.Quiet = true
			w.Start()
			seenOnce := map[string]bool{}
			var modelStash, redeliver, processed []string
			t := &vsys.Script{Name: "t"}
			t.OnMsg = func(a *vsys.Act, ctx vivid.ActorContext, m vsys.Msg) {
				kind := m.ID[:1]
				switch {
				case kind == "S" && !seenOnce[m.ID]:
					seenOnce[m.ID] = true
					ctx.Stash()
					modelStash = append(modelStash, m.ID)
				case kind == "S":
					// came back from the stash
					if len(redeliver) == 0 {
						x.Fail("stash-exactly-once", "%s was delivered again although it was not un-stashed (or was already redelivered)", m.ID)
					} else {
						if redeliver[0] != m.ID {
							x.Fail("stash-order", "%s came back from the stash, expected %s first (stash order)", m.ID, redeliver[0])
						}
						redeliver = redeliver[1:]
					}
					processed = append(processed, m.ID)
				case kind == "P":
					processed = append(processed, m.ID)
				case kind == "U":
					n := 1
					if len(m.ID) > 1 {
						v, _ := strconv.Atoi(m.ID[1:strings.Index(m.ID, "#")])
						ctx.Unstash(v)
						n = v
						if n > len(modelStash) {
							n = len(modelStash)
						}
						if n < 0 {
							n = 0
						}
					} else {
						ctx.Unstash()
						if len(modelStash) == 0 {
							n = 0
						}
					}
					redeliver = append(redeliver, modelStash[:n]...)
					modelStash = modelStash[n:]
				}
				if ctx.StashCount() != len(modelStash) {
					x.Fail("stash-count", "after %s StashCount()=%d, the reference list holds %d", m.ID, ctx.StashCount(), len(modelStash))
				}
			}
			w.SpawnRoot(t)
			ref := w.Ref("/t")
			w.SpawnRoot(&vsys.Script{Name: "sch", OnMsg: func(a *vsys.Act, ctx vivid.ActorContext, m vsys.Msg) {
				if err := ctx.Scheduler().Once(ref, time.Millisecond, vsys.Msg{ID: m.ID}, vivid.WithSchedulerReference(m.ID)); err != nil {
					x.Fail("harness", "Once: %v", err)
				}
			}})
			vrt.QuiesceNoTimers()
			for i, tok := range script {
				id := tok
				switch tok[:1] {
				case "S", "P":
					id = fmt.Sprintf("%s%d", tok, i)
				case "U":
					if len(tok) > 1 {
						id = fmt.Sprintf("%s#%d", tok, i)
					}
				}
				if viaSched && (tok[:1] == "S" || tok[:1] == "P") {
					w.Sys.Tell(w.Ref("/sch"), vsys.Msg{ID: id})
					vrt.SetHorizon(vrt.Now() + int64(2*time.Millisecond))
					vrt.Quiesce() // the job fires 1 ms later and is delivered before the next token is sent
					vrt.SetHorizon(0)
					continue
				}
				w.Sys.Tell(ref, vsys.Msg{ID: id})
				vrt.Yield()
			}
			vrt.QuiesceNoTimers()
			if len(redeliver) != 0 {
				x.Fail("stash-exactly-once", "un-stashed messages never delivered again: %v", redeliver)
			}
			if c := actor.VerifCtxOf(w.Sys, "/t"); c != nil {
				if d := actor.VerifCtx(c); d.Stash != len(modelStash) {
					x.Fail("stash-count", "at quiescence the stash holds %d, the reference list %d", d.Stash, len(modelStash))
				}
			}
			x.Outcome(strings.Join(processed, " "))
			x.Logf("processed %v stash-left %v", processed, modelStash)
			w.Sys.Stop()
			vrt.QuiesceNoTimers()
		},
	}
}

func killScenario(k int, poison bool, bounds []int) *vexp.Scenario {
	return &vexp.Scenario{
		Name:   fmt.Sprintf("kill/queued=%d/poison=%v", k, poison),
		Family: "kill-vs-queue",
		Cfg:    vsys.Coarse(60000),
		Bounds: bounds,
		Setup:  func(x *vexp.X) { vsys.CoarseSetup() },
		Body: func(x *vexp.X) {
			w := vsys.NewWorld(x)
			w.Quiet = true
			w.Start()
			w.SpawnRoot(&vsys.Script{Name: "t"})
			vrt.QuiesceNoTimers()
			ref := w.Ref("/t")
			ctx := actor.VerifCtxOf(w.Sys, "/t")
			for i := 0; i < k; i++ {
				w.Sys.Tell(ref, vsys.Msg{ID: fmt.Sprintf("m%d", i)})
				vrt.Yield()
			}
			w.Sys.Kill(ref, poison, "driver")
			vrt.Yield()
			w.Sys.Tell(ref, vsys.Msg{ID: "after"})
			vrt.QuiesceNoTimers()
			// arrival order in t's mailbox, handling order at t's HandleEnvelop
			enq := w.EnqsOf(ctx)
			killEnq := -1
			var before []string
			for _, q := range enq {
				if q.Type == "OnKill" {
					killEnq = q.Seq
					break
				}
				if q.Type == "Msg" {
					before = append(before, q.Detail)
				}
			}
			if killEnq < 0 {
				x.Fail("harness", "kill never enqueued")
				return
			}
			var seen []string
			killSeenAt := -1
			for _, e := range w.EntriesOf("/t") {
				if e.Type == "OnKill" {
					killSeenAt = len(seen)
				}
				if e.Type == "Msg" {
					seen = append(seen, e.Detail)
				}
			}
			if poison {
				// every user message enqueued before the poison kill is processed before it
				if killSeenAt < 0 {
					x.Fail("poison-after-backlog", "the actor never saw OnKill")
				} else if strings.Join(seen[:killSeenAt], ",") != strings.Join(before, ",") {
					x.Fail("poison-after-backlog", "user messages enqueued before the poison kill: %v; processed before OnKill: %v", before, seen[:killSeenAt])
				}
			} else {
				// the first envelope handled after the kill was enqueued must be the kill
				first := ""
				for _, h := range w.Handled {
					if h.Ctx == ctx && h.Seq > killEnq {
						first = h.Type + "(" + h.Detail + ")"
						if h.Type != "OnKill" {
							x.Fail("immediate-kill-overtakes", "the kill was pending in the system queue, yet the next envelope handled was %s", first)
						}
						break
					}
				}
				if killSeenAt >= 0 && len(seen) > killSeenAt {
					x.Fail("immediate-kill-overtakes", "user messages %v were processed after OnKill", seen[killSeenAt:])
				}
			}
			x.Outcome(fmt.Sprintf("%v|kill@%d", seen, killSeenAt))
			x.Logf("before-kill %v seen %v killSeenAt %d", before, seen, killSeenAt)
			w.Sys.Stop()
			vrt.QuiesceNoTimers()
		},
	}
}

func build(tier string) []*vexp.Scenario {
	bounds := []int{0, 1}
	maxLen := 5
	if tier == "thorough" {
		bounds = []int{0, 1, 2}
		maxLen = 6
	}
	var out []*vexp.Scenario
	alpha := []string{"S", "P", "U", "U-1", "U0", "U1", "U2", "U99"}
	var rec func(s []string)
	rec = func(s []string) {
		if len(s) > 0 {
			// keep scripts that stash at least once and unstash at least once (others are trivial)
			hasS, hasU := false, false
			for _, t := range s {
				if t == "S" {
					hasS = true
				}
				if t[:1] == "U" {
					hasU = true
				}
			}
			if hasS && hasU {
				out = append(out, stashScenario(append([]string(nil), s...), bounds, false))
				nS := 0
				for _, t := range s {
					if t == "S" {
						nS++
					}
				}
				if nS >= 2 && len(s) <= 4 {
					out = append(out, stashScenario(append([]string(nil), s...), []int{0}, true))
				}
			}
		}
		if len(s) == maxLen {
			return
		}
		for _, a := range alpha {
			// prune: at most three Unstash variants per script keeps the count manageable
			nu := 0
			for _, t := range s {
				if t[:1] == "U" {
					nu++
				}
			}
			if a[:1] == "U" && nu >= 2 {
				continue
			}
			rec(append(s, a))
		}
	}
	rec(nil)
	for _, k := range []int{1, 2, 3} {
		for _, poison := range []bool{false, true} {
			out = append(out, killScenario(k, poison, append(bounds, bounds[len(bounds)-1]+1)))
		}
	}
	return out
}

func main() { vexp.Main("C02", "c02ctx", build) }
