// Harness c02ctx: Stash/Unstash order and kill-vs-queue priority through the real Context
// (coarse scheduling).
package main

import (
	"fmt"
	"strconv"
	"strings"
	"time"

	"github.com/kercylan98/vivid"
	"github.com/kercylan98/vivid/internal/actor"
	"github.com/kercylan98/vivid/internal/verif/vexp"
	"github.com/kercylan98/vivid/internal/verif/vrt"
	"github.com/kercylan98/vivid/internal/verif/vsys"
)

// script tokens: "S" stash the next numbered message, "P" process it, "U" Unstash(), "U<n>" Unstash(n)
// viaSched: the numbered messages reach the actor through the Scheduler API (Once from another actor) instead of Tell
func stashScenario(script []string, bounds []int, viaSched bool) *vexp.Scenario {
	return &vexp.Scenario{
		Name:   map[bool]string{false: "stash/", true: "stash-scheduled/"}[viaSched] + strings.Join(script, ","),
		Family: "stash",
		Cfg:    vsys.Coarse(60000),
		Bounds: bounds,
		Setup:  func(x *vexp.X) { vsys.CoarseSetup() },
		Body: func(x *vexp.X) {
			// "R": the actor fails on that message and is restarted (the system strategy decides for a top-level actor);
			// the stash belongs to the actor, not to the incarnation: it is still there afterwards, in order
			w := vsys.NewWorld(x, vivid.WithActorSystemSupervisionStrategy(vivid.OneForOneStrategy(vivid.SupervisionStrategyDecisionMakerFN(
				func(vivid.SupervisionContext) (vivid.SupervisionDecision, string) {
					return vivid.SupervisionDecisionRestart, "scripted"
				}))))
			w.Quiet = true
			w.Start()
			seenOnce := map[string]bool{}
			var modelStash, redeliver, processed []string
			t := &vsys.Script{Name: "t"}
			t.OnMsg = func(a *vsys.Act, ctx vivid.ActorContext, m vsys.Msg) {
				kind := m.ID[:1]
				switch {
				case kind == "R":
					panic("scripted failure: restart")
				case kind == "S" && !seenOnce[m.ID]:
					seenOnce[m.ID] = true
					ctx.Stash()
					modelStash = append(modelStash, m.ID)
				case kind == "S":
					// came back from the stash
					if len(redeliver) == 0 {
						x.Fail("stash-exactly-once", "%s was delivered again although it was not un-stashed (or was already redelivered)", m.ID)
					} else {
						if redeliver[0] != m.ID {
							x.Fail("stash-order", "%s came back from the stash, expected %s first (stash order)", m.ID, redeliver[0])
						}
						redeliver = redeliver[1:]
					}
					processed = append(processed, m.ID)
				case kind == "P":
					processed = append(processed, m.ID)
				case kind == "U":
					n := 1
					if len(m.ID) > 1 {
						v, _ := strconv.Atoi(m.ID[1:strings.Index(m.ID, "#")])
						ctx.Unstash(v)
						n = v
						if n > len(modelStash) {
							n = len(modelStash)
						}
						if n < 0 {
							n = 0
						}
					} else {
						ctx.Unstash()
						if len(modelStash) == 0 {
							n = 0
						}
					}
					redeliver = append(redeliver, modelStash[:n]...)
					modelStash = modelStash[n:]
				}
				if ctx.StashCount() != len(modelStash) {
					x.Fail("stash-count", "after %s StashCount()=%d, the reference list holds %d", m.ID, ctx.StashCount(), len(modelStash))
				}
			}
			w.SpawnRoot(t)
			ref := w.Ref("/t")
			w.SpawnRoot(&vsys.Script{Name: "sch", OnMsg: func(a *vsys.Act, ctx vivid.ActorContext, m vsys.Msg) {
				if err := ctx.Scheduler().Once(ref, time.Millisecond, vsys.Msg{ID: m.ID}, vivid.WithSchedulerReference(m.ID)); err != nil {
					x.Fail("harness", "Once: %v", err)
				}
			}})
			vrt.QuiesceNoTimers()
			for i, tok := range script {
				id := tok
				switch tok[:1] {
				case "S", "P", "R":
					id = fmt.Sprintf("%s%d", tok, i)
				case "U":
					if len(tok) > 1 {
						id = fmt.Sprintf("%s#%d", tok, i)
					}
				}
				if viaSched && (tok[:1] == "S" || tok[:1] == "P") {
					w.Sys.Tell(w.Ref("/sch"), vsys.Msg{ID: id})
					vrt.SetHorizon(vrt.Now() + int64(2*time.Millisecond))
					vrt.Quiesce() // the job fires 1 ms later and is delivered before the next token is sent
					vrt.SetHorizon(0)
					continue
				}
				w.Sys.Tell(ref, vsys.Msg{ID: id})
				vrt.Yield()
				if tok[:1] == "R" {
					vrt.QuiesceNoTimers() // the restart completes before the next token is sent
				}
			}
			vrt.QuiesceNoTimers()
			if len(redeliver) != 0 {
				x.Fail("stash-exactly-once", "un-stashed messages never delivered again: %v", redeliver)
			}
			if c := actor.VerifCtxOf(w.Sys, "/t"); c != nil {
				if d := actor.VerifCtx(c); d.Stash != len(modelStash) {
					x.Fail("stash-count", "at quiescence the stash holds %d, the reference list %d", d.Stash, len(modelStash))
				}
			}
			x.Outcome(strings.Join(processed, " "))
			x.Logf("processed %v stash-left %v", processed, modelStash)
			w.Sys.Stop()
			vrt.QuiesceNoTimers()
		},
	}
}

func killScenario(k int, poison bool, bounds []int) *vexp.Scenario {
	return &vexp.Scenario{
		Name:   fmt.Sprintf("kill/queued=%d/poison=%v", k, poison),
		Family: "kill-vs-queue",
		Cfg:    vsys.Coarse(60000),
		Bounds: bounds,
		Setup:  func(x *vexp.X) { vsys.CoarseSetup() },
		Body: func(x *vexp.X) {
			w := vsys.NewWorld(x)
			w.Quiet = true
			w.Start()
			w.SpawnRoot(&vsys.Script{Name: "t"})
			vrt.QuiesceNoTimers()
			ref := w.Ref("/t")
			ctx := actor.VerifCtxOf(w.Sys, "/t")
			for i := 0; i < k; i++ {
				w.Sys.Tell(ref, vsys.Msg{ID: fmt.Sprintf("m%d", i)})
				vrt.Yield()
			}
			w.Sys.Kill(ref, poison, "driver")
			vrt.Yield()
			w.Sys.Tell(ref, vsys.Msg{ID: "after"})
			vrt.QuiesceNoTimers()
			// arrival order in t's mailbox, handling order at t's HandleEnvelop
			enq := w.EnqsOf(ctx)
			killEnq := -1
			var before []string
			for _, q := range enq {
				if q.Type == "OnKill" {
					killEnq = q.Seq
					break
				}
				if q.Type == "Msg" {
					before = append(before, q.Detail)
				}
			}
			if killEnq < 0 {
				x.Fail("harness", "kill never enqueued")
				return
			}
			var seen []string
			killSeenAt := -1
			for _, e := range w.EntriesOf("/t") {
				if e.Type == "OnKill" {
					killSeenAt = len(seen)
				}
				if e.Type == "Msg" {
					seen = append(seen, e.Detail)
				}
			}
			if poison {
				// every user message enqueued before the poison kill is processed before it
				if killSeenAt < 0 {
					x.Fail("poison-after-backlog", "the actor never saw OnKill")
				} else if strings.Join(seen[:killSeenAt], ",") != strings.Join(before, ",") {
					x.Fail("poison-after-backlog", "user messages enqueued before the poison kill: %v; processed before OnKill: %v", before, seen[:killSeenAt])
				}
			} else {
				// the first envelope handled after the kill was enqueued must be the kill
				first := ""
				for _, h := range w.Handled {
					if h.Ctx == ctx && h.Seq > killEnq {
						first = h.Type + "(" + h.Detail + ")"
						if h.Type != "OnKill" {
							x.Fail("immediate-kill-overtakes", "the kill was pending in the system queue, yet the next envelope handled was %s", first)
						}
						break
					}
				}
				if killSeenAt >= 0 && len(seen) > killSeenAt {
					x.Fail("immediate-kill-overtakes", "user messages %v were processed after OnKill", seen[killSeenAt:])
				}
			}
			x.Outcome(fmt.Sprintf("%v|kill@%d", seen, killSeenAt))
			x.Logf("before-kill %v seen %v killSeenAt %d", before, seen, killSeenAt)
			w.Sys.Stop()
			vrt.QuiesceNoTimers()
		},
	}
}

// selfKillScenario: the actor kills ITSELF from a handler while k user messages are already queued behind the message
// being handled. Immediate: the kill overtakes them. Poison: they are processed first.
func selfKillScenario(k int, poison bool, bounds []int) *vexp.Scenario {
	return &vexp.Scenario{
		Name:   fmt.Sprintf("self-kill/queued=%d/poison=%v", k, poison),
		Family: "kill-vs-queue",
		Cfg:    vsys.Coarse(60000),
		Bounds: bounds,
		Setup:  func(x *vexp.X) { vsys.CoarseSetup() },
		Body: func(x *vexp.X) {
			w := vsys.NewWorld(x)
			w.Quiet = true
			w.Start()
			released := false
			w.SpawnRoot(&vsys.Script{Name: "t", OnMsg: func(a *vsys.Act, ctx vivid.ActorContext, m vsys.Msg) {
				switch m.ID {
				case "hold":
					vrt.Block(vrt.KYield, 0, "held handler of /t", func() bool { return released })
				case "die":
					ctx.Kill(ctx.Ref(), poison, "self")
				}
			}})
			vrt.QuiesceNoTimers()
			ref := w.Ref("/t")
			ctx := actor.VerifCtxOf(w.Sys, "/t")
			w.Sys.Tell(ref, vsys.Msg{ID: "hold"})
			vrt.QuiesceNoTimers()
			w.Sys.Tell(ref, vsys.Msg{ID: "die"})
			for i := 0; i < k; i++ {
				w.Sys.Tell(ref, vsys.Msg{ID: fmt.Sprintf("m%d", i)})
			}
			released = true
			vrt.QuiesceNoTimers()
			var seen []string
			killSeenAt := -1
			for _, e := range w.EntriesOf("/t") {
				if e.Type == "OnKill" {
					killSeenAt = len(seen)
				}
				if e.Type == "Msg" && strings.HasPrefix(e.Detail, "m") {
					seen = append(seen, e.Detail)
				}
			}
			_ = ctx
			if killSeenAt < 0 {
				x.Fail("harness", "the actor never saw its own OnKill")
			} else if poison && killSeenAt != k {
				x.Fail("poison-after-backlog", "%d user messages were queued before the actor poison-killed itself; it processed %d of them before OnKill: %v", k, killSeenAt, seen)
			} else if !poison && len(seen) != 0 {
				x.Fail("immediate-kill-overtakes", "the actor killed itself immediately with %d user messages queued; it still processed %v (before OnKill: %d)", k, seen, killSeenAt)
			}
			x.Outcome(fmt.Sprintf("%v|kill@%d", seen, killSeenAt))
			w.Sys.Stop()
			vrt.QuiesceNoTimers()
		},
	}
}

// restartChildrenScenario: a parent with a child is restarted (gracefully or not); the child has k user messages queued
// when the parent's kill reaches it. Graceful = poison: the child processes them first; immediate: the kill overtakes them.
func restartChildrenScenario(k int, dec vivid.SupervisionDecision, bounds []int) *vexp.Scenario {
	return &vexp.Scenario{
		Name:   fmt.Sprintf("kill-from-restarting-parent/queued=%d/dec=%s", k, dec),
		Family: "kill-vs-queue",
		Cfg:    vsys.Coarse(60000),
		Bounds: bounds,
		Setup:  func(x *vexp.X) { vsys.CoarseSetup() },
		Body: func(x *vexp.X) {
			w := vsys.NewWorld(x)
			w.Quiet = true
			w.Start()
			released := false
			c := &vsys.Script{Name: "c", OnMsg: func(a *vsys.Act, ctx vivid.ActorContext, m vsys.Msg) {
				if m.ID == "hold" {
					vrt.Block(vrt.KYield, 0, "held handler of /p/a/c", func() bool { return released })
				}
			}}
			a := &vsys.Script{Name: "a", Children: []*vsys.Script{c}, OnMsg: func(act *vsys.Act, ctx vivid.ActorContext, m vsys.Msg) {
				if m.ID == "boom" {
					panic("scripted")
				}
			}}
			par := &vsys.Script{Name: "p", Children: []*vsys.Script{a}}
			par.Strategy = w.Decider("/p", false, dec)
			w.SpawnRoot(par)
			vrt.QuiesceNoTimers()
			rc := w.Ref("/p/a/c")
			w.Sys.Tell(rc, vsys.Msg{ID: "hold"})
			vrt.QuiesceNoTimers()
			for i := 0; i < k; i++ {
				w.Sys.Tell(rc, vsys.Msg{ID: fmt.Sprintf("m%d", i)})
			}
			w.Sys.Tell(w.Ref("/p/a"), vsys.Msg{ID: "boom"})
			vrt.QuiesceNoTimers() // the parent has failed, is being restarted and has forwarded its kill to the (held) child
			released = true
			vrt.QuiesceNoTimers()
			var seen []string
			killSeenAt, poisonSeen := -1, false
			for _, e := range w.Incs["/p/a/c"][0].Entries {
				if e.Type == "OnKill" && killSeenAt < 0 {
					killSeenAt = len(seen)
					poisonSeen = strings.Contains(e.Detail, "poison=true")
				}
				if e.Type == "Msg" && strings.HasPrefix(e.Detail, "m") {
					seen = append(seen, e.Detail)
				}
			}
			graceful := dec == vivid.SupervisionDecisionGracefulRestart || dec == vivid.SupervisionDecisionGracefulStop
			switch {
			case killSeenAt < 0:
				x.Fail("harness", "the child of the restarted / stopped parent never saw OnKill (saw %v)", seen)
			case graceful && (killSeenAt != k || !poisonSeen):
				x.Fail("poison-after-backlog", "the parent was %s: its child had %d user messages queued and must process them before the poison kill; it processed %d before OnKill(poison=%v): %v", dec, k, killSeenAt, poisonSeen, seen)
			case !graceful && len(seen) != 0:
				x.Fail("immediate-kill-overtakes", "the parent was %s: its kill overtakes the %d user messages queued at the child; the child still processed %v", dec, k, seen)
			}
			x.Outcome(fmt.Sprintf("%v|kill@%d", seen, killSeenAt))
			w.Sys.Stop()
			vrt.QuiesceNoTimers()
		},
	}
}

func build(tier string) []*vexp.Scenario {
	bounds := []int{0, 1}
	maxLen := 5
	if tier == "thorough" {
		bounds = []int{0, 1, 2}
		maxLen = 6
	}
	var out []*vexp.Scenario
	// a restart between stashing and un-stashing
	for _, s := range [][]string{{"S", "R", "U", "P"}, {"S", "S", "R", "U2", "P"}, {"S", "P", "R", "S", "U99"}, {"S", "S", "R", "R", "U", "U"}, {"S", "U", "R", "S", "R", "U"}} {
		out = append(out, stashScenario(s, bounds, false))
		out = append(out, stashScenario(s, []int{0}, true))
	}
	alpha := []string{"S", "P", "U", "U-1", "U0", "U1", "U2", "U99"}
	var rec func(s []string)
	rec = func(s []string) {
		if len(s) > 0 {
			// keep scripts that stash at least once and unstash at least once (others are trivial)
			hasS, hasU := false, false
			for _, t := range s {
				if t == "S" {
					hasS = true
				}
				if t[:1] == "U" {
					hasU = true
				}
			}
			if hasS && hasU {
				out = append(out, stashScenario(append([]string(nil), s...), bounds, false))
				nS := 0
				for _, t := range s {
					if t == "S" {
						nS++
					}
				}
				if nS >= 2 && len(s) <= 4 {
					out = append(out, stashScenario(append([]string(nil), s...), []int{0}, true))
				}
			}
		}
		if len(s) == maxLen {
			return
		}
		for _, a := range alpha {
			// prune: at most three Unstash variants per script keeps the count manageable
			nu := 0
			for _, t := range s {
				if t[:1] == "U" {
					nu++
				}
			}
			if a[:1] == "U" && nu >= 2 {
				continue
			}
			rec(append(s, a))
		}
	}
	rec(nil)
	for _, k := range []int{1, 2, 3} {
		for _, poison := range []bool{false, true} {
			out = append(out, killScenario(k, poison, append(bounds, bounds[len(bounds)-1]+1)))
			out = append(out, selfKillScenario(k, poison, bounds))
		}
		for _, d := range []vivid.SupervisionDecision{vivid.SupervisionDecisionRestart, vivid.SupervisionDecisionGracefulRestart, vivid.SupervisionDecisionStop, vivid.SupervisionDecisionGracefulStop} {
			out = append(out, restartChildrenScenario(k, d, bounds))
		}
	}
	return out
}

func main() { vexp.Main("C02", "c02ctx", build) }
