// Harness sup: supervision matrix on the real actor.System (coarse scheduling).
// Tree: / -> t (top supervisor) -> s (supervisor under test) -> {a -> g, b}.
// The same scenarios serve C08 (exactly the decided directive to exactly its targets) and C09
// (nobody stays paused, queued mail survives, zombies are inert and releasable); -prop selects
// which oracle rules count.
package main

import (
	"errors"
	"flag"
	"fmt"
	"sort"
	"strings"
	"time"

	"github.com/kercylan98/vivid"
	"github.com/kercylan98/vivid/internal/actor"
	"github.com/kercylan98/vivid/internal/verif/vexp"
	"github.com/kercylan98/vivid/internal/verif/vrt"
	"github.com/kercylan98/vivid/internal/verif/vsys"
)

var prop = flag.String("prop", "C08", "C08 or C09: which oracle rules are reported")

type params struct {
	site   string // launch | msg | childKilled | sched | onKill (failure while stopping) | msgThenChildKilled (a second failure, in a system-message handler, while the decision about the first is still pending)
	cause  string // panic | failed
	dec    vivid.SupervisionDecision
	all    bool                      // one-for-all at s
	dec2   vivid.SupervisionDecision // t's decision (escalation)
	dec3   vivid.SupervisionDecision // u's decision (second escalation)
	pos    int                       // position of boom in the burst (1..3)
	hook   string                    // none | restarted-panic | prelaunch-err | prerestart-err
	second bool                      // a fails a second time later
	decG   vivid.SupervisionDecision // site gFailsWhileParentRestarts: a's decision about its child g
	become bool                      // a switches to another behaviour (Become) before it fails: restart resets it, resume keeps it
	fine   bool                      // the mailbox package's atomic / lock operations are switch points too (lost wake-ups of supervision commands)
}

func (p params) name() string {
	st := "one"
	if p.all {
		st = "all"
	}
	n := fmt.Sprintf("site=%s/%s/dec=%s/for-%s/dec2=%s/dec3=%s/pos=%d/hook=%s/second=%v", p.site, p.cause, p.dec, st, p.dec2, p.dec3, p.pos, p.hook, p.second)
	if p.become {
		n += "/become"
	}
	if p.site == "gFailsWhileParentRestarts" {
		n += "/decG=" + p.decG.String()
	}
	if p.fine {
		n += "/fine-mailbox"
	}
	return n
}

const (
	untouched = "untouched"
	resumed   = "resumed"
	restarted = "restarted"
	stopped   = "stopped"
	respawned = "respawned"
	zombie    = "zombie"
)

// expect is the reference model: the effect every actor of the tree must show.
// Tree: / -> u -> t -> s -> {a -> g, b}
var allPaths = []string{"/u", "/u/t", "/u/t/s", "/u/t/s/a", "/u/t/s/a/g", "/u/t/s/b"}

func descendants(path string) []string {
	var out []string
	for _, q := range allPaths {
		if strings.HasPrefix(q, path+"/") {
			out = append(out, q)
		}
	}
	return out
}

func expect(p params) (eff map[string]string, decisions []string) {
	eff = map[string]string{}
	for _, q := range allPaths {
		eff[q] = untouched
	}
	if p.site == "onKill" || p.site == "childKilledWhileStopping" {
		// failure while stopping: no supervision at all; a was killed by the driver
		eff["/u/t/s/a"], eff["/u/t/s/a/g"] = stopped, stopped
		return eff, nil
	}
	// the chain of (supervisor, failing child, decision)
	chain := []struct {
		sup, child string
		dec        vivid.SupervisionDecision
	}{
		{"/u/t/s", "/u/t/s/a", p.dec}, {"/u/t", "/u/t/s", p.dec2}, {"/u", "/u/t", p.dec3}, {"/", "/u", vivid.SupervisionDecisionStop},
	}
	for li, l := range chain {
		if l.sup != "/" {
			decisions = append(decisions, fmt.Sprintf("%s<-%s:%s", l.sup, l.child, l.dec))
		}
		targets := []string{l.child}
		if li == 0 && p.all {
			targets = append(targets, "/u/t/s/b")
		}
		switch {
		case l.dec.IsRestart():
			for _, t := range targets {
				eff[t] = restarted
				for _, d := range descendants(t) {
					eff[d] = respawned
				}
			}
			if li == 0 && (p.hook == "restarted-panic" || p.hook == "prelaunch-err") {
				eff["/u/t/s/a"] = zombie
				eff["/u/t/s/a/g"] = stopped
			}
			return
		case l.dec.IsStop():
			for _, t := range targets {
				eff[t] = stopped
				for _, d := range descendants(t) {
					eff[d] = stopped
				}
			}
			return
		case l.dec.IsResume():
			eff["/u/t/s/a"] = resumed
			if p.site == "childKilled" {
				eff["/u/t/s/a/g"] = stopped // killed by the driver to provoke the failure
			}
			return
		}
		// escalate: continue with the next level
	}
	return
}

func fail(ctx vivid.ActorContext, cause string) {
	if cause == "failed" {
		ctx.Failed("scripted failure")
		return
	}
	panic("scripted panic")
}

func scenario(p params, bounds []int) *vexp.Scenario {
	cfg := vsys.Coarse(80000)
	if p.fine {
		cfg.FinePkgs = []string{"vivid/internal/mailbox."}
	}
	return &vexp.Scenario{
		Name:   p.name(),
		Family: "dec=" + p.dec.String(),
		Cfg:    cfg,
		Bounds: bounds,
		Setup:  func(x *vexp.X) { vsys.CoarseSetup() },
		Body: func(x *vexp.X) {
			rule := func(pr, name, format string, a ...any) {
				if pr == *prop {
					x.Fail(strings.ToLower(pr)+"."+name, format, a...)
				}
			}
			w := vsys.NewWorld(x)
			w.Quiet = true
			w.Start()
			failed := 0 // failures injected so far
			maxFail := 1
			if p.second {
				maxFail = 2
			}
			g := &vsys.Script{Name: "g"}
			a := &vsys.Script{Name: "a", Children: []*vsys.Script{g}}
			aKillSeen, gFailed := false, false
			if p.site == "gFailsWhileParentRestarts" {
				// g has mail queued (hold, boomG, x2) when its parent a - failing and being restarted gracefully - forwards the
				// poison kill; g fails on boomG while a waits for it. a, although in the middle of its own restart, is still g's supervisor.
				g.OnMsg = func(act *vsys.Act, ctx vivid.ActorContext, m vsys.Msg) {
					switch m.ID {
					case "hold":
						vrt.Block(vrt.KYield, 0, "g holds a message until its parent's OnKill has run", func() bool { return aKillSeen })
					case "boomG":
						if !gFailed {
							gFailed = true
							fail(ctx, p.cause)
						}
					}
				}
				a.Strategy = w.Decider("/u/t/s/a", false, p.decG)
			}
			launches := 0
			a.Launch = func(act *vsys.Act, ctx vivid.ActorContext) {
				launches++
				if p.site == "sched" { // every incarnation arms its timer in OnLaunch; only the first one fails on it
					if err := ctx.Scheduler().Once(ctx.Ref(), time.Second, vsys.Msg{ID: "boomS"}, vivid.WithSchedulerReference("j")); err != nil {
						x.Fail("harness", "Once: %v", err)
					}
				}
				if p.site == "launch" && failed < 1 {
					failed++
					fail(ctx, p.cause)
				}
			}
			a.OnMsg = func(act *vsys.Act, ctx vivid.ActorContext, m vsys.Msg) {
				if m.ID == "become" {
					ctx.Become(act.Alt("alt"))
				}
				if (m.ID == "boom" || m.ID == "boomS" || m.ID == "boom2") && failed < maxFail {
					failed++
					fail(ctx, p.cause)
				}
			}
			gNoticeSeen := false // a has handled OnKilled(g) (whether or not it failed on it)
			if p.site == "msgThenChildKilled" {
				// the decision maker of /u/t/s answers the first failure only after the second one has happened
				w.BeforeDecision = func(supervisor, child string) {
					if supervisor == "/u/t/s" && child == "/u/t/s/a" && len(w.Decisions) == 0 {
						vrt.Block(vrt.KYield, 0, "decision maker waits for the second failure", func() bool { return failed >= 2 || gNoticeSeen })
					}
				}
			}
			a.OnKilled = func(act *vsys.Act, ctx vivid.ActorContext, m *vivid.OnKilled) {
				if p.site == "msgThenChildKilled" && m.Ref.GetPath() == "/u/t/s/a/g" {
					gNoticeSeen = true
					if failed == 1 {
						failed++
						fail(ctx, p.cause)
					}
				}
				if (p.site == "childKilled" || p.site == "childKilledWhileStopping") && m.Ref.GetPath() == "/u/t/s/a/g" && failed < 1 {
					failed++
					fail(ctx, p.cause)
				}
			}
			a.OnKill = func(act *vsys.Act, ctx vivid.ActorContext, m *vivid.OnKill) {
				aKillSeen = true
				if p.site == "onKill" && failed < 1 {
					failed++
					fail(ctx, p.cause)
				}
			}
			switch p.hook {
			case "restarted-panic":
				a.Restarted = func(*vsys.Act) error { panic("scripted restarted panic") }
			case "prerestart-err":
				a.PreRestart = func(*vsys.Act) error { return errors.New("scripted pre-restart error") }
			case "prelaunch-err":
				a.Prelaunch = func(n int) error {
					if n >= 1 {
						return errors.New("scripted prelaunch error on restart")
					}
					return nil
				}
			}
			b := &vsys.Script{Name: "b"}
			s := &vsys.Script{Name: "s", Children: []*vsys.Script{a, b}}
			s.Strategy = w.Decider("/u/t/s", p.all, p.dec)
			t := &vsys.Script{Name: "t", Children: []*vsys.Script{s}}
			t.Strategy = w.Decider("/u/t", false, p.dec2)
			u := &vsys.Script{Name: "u", Children: []*vsys.Script{t}}
			u.Strategy = w.Decider("/u", false, p.dec3)
			if _, err := w.SpawnRoot(u); err != nil {
				x.Fail("harness", "spawn: %v", err)
				return
			}
			vrt.QuiesceNoTimers()
			ra, rb := w.Ref("/u/t/s/a"), w.Ref("/u/t/s/b")
			ctxA, ctxB := actor.VerifCtxOf(w.Sys, "/u/t/s/a"), actor.VerifCtxOf(w.Sys, "/u/t/s/b")
			var sentA, sentB []string
			tellA := func(id string) { sentA = append(sentA, id); w.Sys.Tell(ra, vsys.Msg{ID: id}); vrt.Yield() }
			tellB := func(id string) { sentB = append(sentB, id); w.Sys.Tell(rb, vsys.Msg{ID: id}); vrt.Yield() }
			if p.become {
				w.Sys.Tell(ra, vsys.Msg{ID: "become"})
				vrt.QuiesceNoTimers()
			}
			burst := []string{"m1", "m2", "m3"}
			for i, m := range burst {
				if i+1 == p.pos {
					switch p.site {
					case "msg":
						tellA("boom")
					case "gFailsWhileParentRestarts":
						rg := w.Ref("/u/t/s/a/g")
						for _, id := range []string{"hold", "boomG", "x2"} {
							w.Sys.Tell(rg, vsys.Msg{ID: id})
						}
						vrt.QuiesceNoTimers() // g is now inside "hold" with boomG and x2 queued behind it
						tellA("boom")
					case "msgThenChildKilled":
						tellA("boom")
						w.Sys.Kill(w.Ref("/u/t/s/a/g"), false, "driver")
						vrt.Yield()
					case "childKilled":
						w.Sys.Kill(w.Ref("/u/t/s/a/g"), false, "driver")
						vrt.Yield()
					case "onKill":
						w.Sys.Kill(ra, true, "driver")
						vrt.Yield()
					case "childKilledWhileStopping":
						w.Sys.Kill(ra, false, "driver")
						vrt.Yield()
					}
				}
				tellA(m)
				if i < 2 {
					tellB(fmt.Sprintf("b%d", i+1))
				}
			}
			vrt.Quiesce() // runs the scheduled failure (virtual 1s) too
			if p.second {
				tellA("boom2")
				tellA("m4")
				vrt.Quiesce()
			}
			if p.site == "gFailsWhileParentRestarts" {
				if !gFailed {
					x.Fail("harness", "g never failed")
				}
				n := 0
				for _, d := range w.Decisions {
					if strings.HasPrefix(d, "/u/t/s/a<-/u/t/s/a/g:") {
						n++
					}
				}
				if n != 1 {
					rule("C08", "decision-consulted-once", "/u/t/s/a/g failed while its parent /u/t/s/a was being restarted: the parent's strategy was consulted %d times: %v", n, w.Decisions)
				}
				sysd := actor.VerifSys(w.Sys)
				for _, c := range sysd.Contexts {
					d := actor.VerifCtx(c)
					if d.Paused && !d.Zombie {
						rule("C09", "nobody-stays-paused", "%s is alive but its mailbox is still paused at quiescence (state=%d)", d.Path, d.State)
					}
					if d.State == 1 && !d.Zombie {
						rule("C09", "nobody-half-stopped", "%s is stuck in the stopping state at quiescence (children=%v)", d.Path, d.Children)
					}
					if d.UserQ != 0 || d.SysQ != 0 {
						rule("C09", "mail-consumed", "%s still has queued mail at quiescence (user=%d system=%d paused=%v)", d.Path, d.UserQ, d.SysQ, d.Paused)
					}
				}
				if got := len(w.PubsOf("ActorRestartedEvent")); got < 1 {
					rule("C09", "restart-completes", "/u/t/s/a was to be restarted gracefully but no ActorRestartedEvent was published (its child failed while it was waiting for it)")
				}
				var probed []string
				for _, c := range sysd.Contexts {
					d := actor.VerifCtx(c)
					if d.Path == "/" || d.State != 0 {
						continue
					}
					probed = append(probed, d.Path)
					w.Sys.Tell(w.Ref(d.Path), vsys.Msg{ID: "probe:" + d.Path})
				}
				vrt.Quiesce()
				for _, path := range probed {
					ok := false
					for _, en := range w.EntriesOf(path) {
						if en.Type == "Msg" && en.Detail == "probe:"+path {
							ok = true
						}
					}
					if !ok {
						rule("C09", "survivor-processes-probe", "%s survived but did not process a message sent after quiescence", path)
					}
				}
				err := w.Sys.Stop()
				vrt.Quiesce()
				if err != nil {
					rule("C09", "stop-after-failure", "System.Stop after the scenario returned %v", err)
				}
				vsys.CheckLifecycle(w)
				x.Outcome(w.Summary() + strings.Join(w.Decisions, ";"))
				return
			}
			if p.site == "msgThenChildKilled" {
				// two failures of /u/t/s/a, each handed to its parent's strategy exactly once
				n := 0
				for _, d := range w.Decisions {
					if strings.HasPrefix(d, "/u/t/s<-/u/t/s/a:") {
						n++
					}
				}
				if n != failed {
					rule("C08", "decision-consulted-once", "/u/t/s/a failed %d times (on a message, then on its child's OnKilled while the first decision was pending) but the strategy of /u/t/s was consulted %d times: %v", failed, n, w.Decisions)
				}
				err := w.Sys.Stop()
				vrt.Quiesce()
				if err != nil {
					rule("C09", "stop-after-failure", "System.Stop after the scenario returned %v", err)
				}
				vsys.CheckLifecycle(w)
				x.Outcome(w.Summary() + strings.Join(w.Decisions, ";"))
				return
			}
			eff, wantDec := expect(p)
			if p.second {
				wantDec = append(wantDec, wantDec...)
			}

			if p.become && p.dec.IsResume() {
				// Resume: the actor continues with its state intact, i.e. still in the behaviour it had switched to
				afterBoom := false
				for _, en := range w.EntriesOf("/u/t/s/a") {
					if en.Type == "Msg" && en.Detail == "boom" {
						afterBoom = true
						continue
					}
					if afterBoom && en.Type == "Msg" && en.Beh != "alt" {
						rule("C08", "resume-keeps-state", "/u/t/s/a was resumed but handled %s with behaviour %q instead of the behaviour it had switched to before failing", en.Detail, en.Beh)
					}
				}
			}
			// ---------------- C08: exactly the decided directive to exactly its targets ----------------
			if failed == 0 {
				x.Fail("harness", "the scripted failure never happened")
			}
			gotDec := append([]string(nil), w.Decisions...)
			if strings.Join(gotDec, ";") != strings.Join(wantDec, ";") {
				rule("C08", "decision-consulted-once", "strategies consulted %v, expected %v", gotDec, wantDec)
			}
			sysd := actor.VerifSys(w.Sys)
			reg := map[string]bool{}
			for _, r := range sysd.Registry {
				reg[r] = true
			}
			count := func(typ, path string) int {
				n := 0
				for _, pb := range w.PubsOf(typ) {
					if pb.Ref == path {
						n++
					}
				}
				return n
			}
			paths := make([]string, 0, len(eff))
			for k := range eff {
				paths = append(paths, k)
			}
			sort.Strings(paths)
			for _, path := range paths {
				e := eff[path]
				killedN, restartedN := count("ActorKilledEvent", path), count("ActorRestartedEvent", path)
				incs := w.Incs[path]
				ctxs := map[vivid.ActorContext]bool{}
				for _, in := range incs {
					ctxs[in.Ctx] = true
				}
				mult := 1
				if p.second && (path == "/u/t/s/a" || (p.all && path == "/u/t/s/b") || path == "/u/t/s/a/g") {
					mult = 2
				}
				switch e {
				case untouched, resumed:
					if killedN != 0 || restartedN != 0 || len(incs) != 1 {
						rule("C08", "untargeted-untouched", "%s must be %s but shows killed=%d restarted=%d incarnations=%d", path, e, killedN, restartedN, len(incs))
					}
					for _, en := range w.EntriesOf(path) {
						if en.Type == "OnKill" {
							rule("C08", "untargeted-untouched", "%s must be %s but its behaviour saw OnKill", path, e)
						}
					}
					if !reg[path] {
						rule("C08", "untargeted-untouched", "%s must be %s but is no longer registered", path, e)
					}
				case restarted:
					if restartedN != mult || killedN != 0 || !reg[path] || len(ctxs) != 1 || len(incs) != 1+mult {
						rule("C08", "restart-applied", "%s must be restarted %dx under the same reference: restarted-events=%d killed-events=%d registered=%v contexts=%d incarnations=%d", path, mult, restartedN, killedN, reg[path], len(ctxs), len(incs))
					}
				case stopped:
					if killedN != 1 || reg[path] {
						rule("C08", "stop-applied", "%s must be stopped: killed-events=%d registered=%v", path, killedN, reg[path])
					}
					parent := path[:strings.LastIndex(path, "/")]
					if eff[parent] != stopped && eff[parent] != "" {
						n := 0
						for _, en := range w.EntriesOf(parent) {
							if en.Type == "OnKilled" && en.Detail == path {
								n++
							}
						}
						if n != 1 {
							rule("C08", "stop-notifies-parent", "%s was stopped but its parent saw OnKilled(%s) %d times", path, path, n)
						}
					}
				case respawned:
					if killedN != mult || !reg[path] || len(ctxs) != 1+mult {
						rule("C08", "restart-applied", "%s (child of a restarted actor) must have been terminated and spawned again %dx: killed-events=%d registered=%v contexts=%d", path, mult, killedN, reg[path], len(ctxs))
					}
				case zombie:
					if killedN != 0 || !reg[path] {
						rule("C09", "zombie-inert", "%s must be a zombie (registered, no termination notice): killed-events=%d registered=%v", path, killedN, reg[path])
					}
				}
			}
			if p.site == "sched" && eff["/u/t/s/a"] == restarted {
				n := 0
				for _, en := range w.EntriesOf("/u/t/s/a") {
					if en.Type == "Msg" && en.Detail == "boomS" {
						n++
					}
				}
				if n != 2 {
					rule("C08", "restart-resets-state", "/u/t/s/a arms a timer in OnLaunch, failed on its message and was restarted: the restarted actor armed it again in its own OnLaunch, yet the scheduled message was seen %d times in all (expected 2: the restart must not take away what the new incarnation set up)", n)
				}
			}
			if eff["/u/t/s/a"] == resumed {
				booms, insts := 0, map[int]bool{}
				for _, en := range w.EntriesOf("/u/t/s/a") {
					if en.Type == "Msg" && strings.HasPrefix(en.Detail, "boom") {
						booms++
					}
					insts[en.Inst] = true
				}
				wantBooms := 1
				if p.site != "msg" && p.site != "sched" {
					wantBooms = 0
				}
				if p.second {
					wantBooms++
				}
				if booms != wantBooms {
					rule("C08", "resume-drops-failing-message", "resumed actor saw the failing message %d times (expected %d)", booms, wantBooms)
				}
				if len(insts) != 1 {
					rule("C08", "resume-keeps-state", "resumed actor ran on %d instances", len(insts))
				}
			}

			// ---------------- C09: nobody stays paused, queued mail survives ----------------
			for _, c := range sysd.Contexts {
				d := actor.VerifCtx(c)
				if d.Paused && !d.Zombie {
					rule("C09", "nobody-stays-paused", "%s is alive but its mailbox is still paused at quiescence (state=%d)", d.Path, d.State)
				}
				if d.State == 1 && !d.Zombie {
					rule("C09", "nobody-half-stopped", "%s is stuck in the stopping state at quiescence (children=%v)", d.Path, d.Children)
				}
				if d.UserQ != 0 || d.SysQ != 0 {
					rule("C09", "mail-consumed", "%s still has queued mail at quiescence (user=%d system=%d paused=%v)", d.Path, d.UserQ, d.SysQ, d.Paused)
				}
			}
			seenBy := func(path string) (ids []string, incOf map[string]int) {
				incOf = map[string]int{}
				for i, in := range w.Incs[path] {
					for _, en := range in.Entries {
						if en.Type == "Msg" {
							ids = append(ids, en.Detail)
							incOf[en.Detail] = i
						}
					}
				}
				return
			}
			checkBurst := func(path string, c *actor.Context, sent []string, e string, failing string) {
				ids, incOf := seenBy(path)
				graceful := p.dec.IsGraceful() && !p.dec.IsEscalate()
				if graceful && (e == restarted || e == stopped) {
					// only messages that entered the mailbox before the graceful restart / poison kill count
					var before []string
					for _, q := range w.EnqsOf(c) {
						if q.Type == "*actor.RestartMessage" || q.Type == "OnKill" {
							break
						}
						if q.Type == "Msg" {
							before = append(before, q.Detail)
						}
					}
					sent = before
				}
				// messages queued behind the failing one
				var behind []string
				after := failing == ""
				for _, m := range sent {
					if after && !strings.HasPrefix(m, "boom") {
						behind = append(behind, m)
					}
					if m == failing {
						after = true
					}
				}
				var got []string
				for _, id := range ids {
					for _, m := range behind {
						if id == m {
							got = append(got, id)
						}
					}
				}
				switch {
				case e == resumed || e == restarted || (e == untouched):
					if strings.Join(got, ",") != strings.Join(behind, ",") {
						rule("C09", "queued-mail-delivered-in-order", "%s (%s): messages queued behind the failure %v, delivered %v", path, e, behind, got)
					}
					if e == restarted && !p.second && failing != "" {
						for _, m := range behind {
							if inc, ok := incOf[m]; ok {
								if graceful && inc != 0 {
									rule("C09", "graceful-processes-before-restart", "%s: %s was queued before the graceful restart but was handled by incarnation %d", path, m, inc)
								}
								if !graceful && inc != 1 {
									rule("C09", "immediate-restart-keeps-mail", "%s: %s was queued behind the failing message but was handled by incarnation %d, not by the restarted actor", path, m, inc)
								}
							}
						}
					}
				case e == stopped && graceful:
					if strings.Join(got, ",") != strings.Join(behind, ",") {
						rule("C09", "graceful-processes-before-stop", "%s: messages queued before the graceful stop %v, processed %v", path, behind, got)
					}
				}
			}
			if !p.dec.IsEscalate() && p.site != "onKill" && p.site != "childKilledWhileStopping" && p.site != "launch" && p.site != "sched" {
				failing := ""
				if p.site == "msg" {
					failing = "boom"
				}
				if p.site == "msg" {
					checkBurst("/u/t/s/a", ctxA, sentA, eff["/u/t/s/a"], failing)
				}
				if !p.all || p.dec.IsResume() {
					checkBurst("/u/t/s/b", ctxB, sentB, untouched, "")
				} else if p.dec.IsRestart() {
					checkBurst("/u/t/s/b", ctxB, sentB, restarted, "")
				}
			}
			if p.fine {
				vrt.Freeze() // the fine-grained part is about the supervision commands; the probes below would wake a stuck mailbox anyway
			}
			// probes: every survivor processes a message sent after quiescence
			var probed []string
			for _, c := range sysd.Contexts {
				d := actor.VerifCtx(c)
				if d.Path == "/" || d.State != 0 {
					continue
				}
				probed = append(probed, d.Path)
				w.Sys.Tell(w.Ref(d.Path), vsys.Msg{ID: "probe:" + d.Path})
			}
			vrt.Quiesce()
			for _, path := range probed {
				ok := false
				for _, en := range w.EntriesOf(path) {
					if en.Type == "Msg" && en.Detail == "probe:"+path {
						ok = true
					}
				}
				isZombie := eff[path] == zombie
				if !ok && !isZombie {
					rule("C09", "survivor-processes-probe", "%s survived (%s) but did not process a message sent after quiescence", path, eff[path])
				}
				if ok && isZombie {
					rule("C09", "zombie-inert", "zombie %s ran user code for a probe message", path)
				}
			}
			if eff["/u/t/s/a"] == zombie {
				zc := actor.VerifCtxOf(w.Sys, "/u/t/s/a")
				if zc != nil {
					d := actor.VerifCtx(zc)
					if d.UserQ != 0 || d.SysQ != 0 {
						rule("C09", "zombie-consumes-mail", "zombie still has queued mail: user=%d system=%d", d.UserQ, d.SysQ)
					}
				}
				for _, en := range w.EntriesOf("/u/t/s") {
					if en.Type == "OnKilled" && en.Detail == "/u/t/s/a" {
						rule("C09", "zombie-inert", "zombie /u/t/s/a sent a termination notice to its parent before being released")
					}
				}
				// explicit Kill releases it
				w.Sys.Kill(ra, false, "release")
				vrt.Quiesce()
				if count("ActorKilledEvent", "/u/t/s/a") != 1 {
					rule("C09", "zombie-released-by-kill", "Kill of zombie /u/t/s/a did not release it (killed-events=%d)", count("ActorKilledEvent", "/u/t/s/a"))
				}
				if _, err := w.Sys.FindActor("localhost/u/t/s/a"); err == nil {
					rule("C09", "zombie-released-by-kill", "zombie /u/t/s/a still registered after Kill")
				}
			}
			err := w.Sys.Stop()
			vrt.Quiesce()
			if err != nil {
				rule("C09", "stop-after-failure", "System.Stop after the scenario returned %v", err)
			}
			if reg := actor.VerifSys(w.Sys).Registry; len(reg) != 0 {
				rule("C09", "stop-after-failure", "after System.Stop the registry still holds %v", reg)
			}
			vsys.CheckLifecycle(w)
			x.Outcome(w.Summary() + strings.Join(w.Decisions, ";"))
			for _, en := range w.Entries {
				x.Logf("see %s", en.String())
			}
			x.Logf("decisions %v", w.Decisions)
		},
		Post: func(x *vexp.X, r *vrt.Result) {
			for _, b := range r.Blocked {
				if *prop == "C09" {
					x.Fail("c09.no-thread-stuck", "thread still blocked after System.Stop: %s", b)
				}
			}
		},
	}
}

// replacedScenario: a top-level actor w fails; while the decision about that failure is still pending (the system's decision
// maker is slow) w is killed by somebody else, terminates, and an outsider spawns a new actor under the same name. The directive,
// when it finally comes, belongs to the actor that failed - which is gone - and must not touch the new one.
func replacedScenario(dec vivid.SupervisionDecision, cause string, bounds []int) *vexp.Scenario {
	return &vexp.Scenario{
		Name:   fmt.Sprintf("top-level-replaced-while-decision-pending/%s/dec=%s", cause, dec),
		Family: "dec=" + dec.String(),
		Cfg:    vsys.Coarse(80000),
		Bounds: bounds,
		Setup:  func(x *vexp.X) { vsys.CoarseSetup() },
		Body: func(x *vexp.X) {
			rule := func(pr, name, format string, a ...any) {
				if pr == *prop {
					x.Fail(strings.ToLower(pr)+"."+name, format, a...)
				}
			}
			replaced := false
			consulted := 0
			w := vsys.NewWorld(x, vivid.WithActorSystemSupervisionStrategy(vivid.OneForOneStrategy(vivid.SupervisionStrategyDecisionMakerFN(
				func(sc vivid.SupervisionContext) (vivid.SupervisionDecision, string) {
					consulted++
					vrt.Block(vrt.KYield, 0, "slow system decision maker", func() bool { return replaced })
					return dec, "scripted"
				}))))
			w.Quiet = true
			w.Start()
			mk := func() *vsys.Script {
				return &vsys.Script{Name: "w", OnMsg: func(a *vsys.Act, ctx vivid.ActorContext, m vsys.Msg) {
					if m.ID == "boom" {
						fail(ctx, cause)
					}
				}}
			}
			w.SpawnRoot(mk())
			vrt.QuiesceNoTimers()
			ref := w.Ref("/w")
			w.Sys.Tell(ref, vsys.Msg{ID: "boom"})
			vrt.QuiesceNoTimers() // w has failed, the root is inside the (blocked) decision maker
			w.Sys.Kill(ref, false, "somebody else")
			vrt.QuiesceNoTimers()
			if _, err := w.SpawnRoot(mk()); err != nil {
				x.Fail("harness", "re-spawn under the same name: %v", err)
				return
			}
			vrt.QuiesceNoTimers()
			before := len(w.EntriesOf("/w"))
			replaced = true
			vrt.Quiesce()
			if consulted != 1 {
				rule("C08", "decision-consulted-once", "the system strategy was consulted %d times for one failure", consulted)
			}
			for _, en := range w.EntriesOf("/w")[before:] {
				rule("C08", "directive-hits-the-failed-actor-only", "the decision %s about the actor that failed (and has terminated since) reached the NEW actor living under its name: it saw %s(%s)", dec, en.Type, en.Detail)
			}
			for _, pb := range w.PubsOf("ActorRestartedEvent") {
				if pb.Ref == "/w" {
					rule("C08", "directive-hits-the-failed-actor-only", "the new actor under the name of the failed one was restarted")
				}
			}
			w.Sys.Tell(w.Ref("/w"), vsys.Msg{ID: "probe"})
			vrt.Quiesce()
			ok := false
			for _, en := range w.EntriesOf("/w") {
				if en.Type == "Msg" && en.Detail == "probe" {
					ok = true
				}
			}
			if !ok {
				rule("C09", "survivor-processes-probe", "the new actor /w (spawned after the failed one had terminated) did not process a message sent after quiescence")
				rule("C08", "directive-hits-the-failed-actor-only", "the new actor /w no longer processes messages after the late decision %s", dec)
			}
			if err := w.Sys.Stop(); err != nil {
				rule("C09", "stop-after-failure", "System.Stop after the scenario returned %v", err)
			}
			vrt.Quiesce()
			vsys.CheckLifecycle(w)
			x.Outcome(w.Summary())
		},
	}
}

// siblingsScenario: under a one-for-all supervisor whose decision depends on who failed, b fails (decision decB) and, right
// behind it, a - which has a child and a backlog of mail - fails too (decision decA). Whatever b's directive does to a (a is
// one of its targets), a's own failure is still handled with a paused: its backlog is not lost.
func siblingsScenario(decA, decB vivid.SupervisionDecision, bounds []int) *vexp.Scenario {
	return &vexp.Scenario{
		Name:   fmt.Sprintf("concurrent-sibling-failures/decA=%s/decB=%s", decA, decB),
		Family: "dec=" + decA.String(),
		Cfg:    vsys.Coarse(80000),
		Bounds: bounds,
		Setup:  func(x *vexp.X) { vsys.CoarseSetup() },
		Body: func(x *vexp.X) {
			rule := func(pr, name, format string, a ...any) {
				if pr == *prop {
					x.Fail(strings.ToLower(pr)+"."+name, format, a...)
				}
			}
			w := vsys.NewWorld(x)
			w.Quiet = true
			w.Start()
			boomer := func(a *vsys.Act, ctx vivid.ActorContext, m vsys.Msg) {
				if m.ID == "boom" {
					panic("scripted")
				}
			}
			a := &vsys.Script{Name: "a", Children: []*vsys.Script{{Name: "g"}}, OnMsg: boomer}
			b := &vsys.Script{Name: "b", OnMsg: boomer}
			s := &vsys.Script{Name: "s", Children: []*vsys.Script{a, b}}
			s.Strategy = vivid.OneForAllStrategy(vivid.SupervisionStrategyDecisionMakerFN(func(sc vivid.SupervisionContext) (vivid.SupervisionDecision, string) {
				who := "?"
				if f := sc.Child().First(); f != nil {
					who = f.GetPath()
				}
				d := decA
				if who == "/s/b" {
					d = decB
				}
				w.Decisions = append(w.Decisions, fmt.Sprintf("/s<-%s:%s", who, d))
				return d, "scripted"
			}))
			w.SpawnRoot(s)
			vrt.QuiesceNoTimers()
			ra, rb := w.Ref("/s/a"), w.Ref("/s/b")
			w.Sys.Tell(rb, vsys.Msg{ID: "boom"})
			w.Sys.Tell(ra, vsys.Msg{ID: "boom"})
			sent := []string{"m1", "m2", "m3"}
			for _, id := range sent {
				w.Sys.Tell(ra, vsys.Msg{ID: id})
			}
			vrt.Quiesce()
			// (if the directive handled first stops every child, the other one is gone before the report of its own failure is looked at: then nobody is consulted about it)
			if n := len(w.Decisions); n > 2 || n < 1 || (n == 1 && !decA.IsStop() && !decB.IsStop()) {
				rule("C08", "decision-consulted-once", "two children failed, the strategy was consulted %d times: %v", len(w.Decisions), w.Decisions)
			}
			// a's backlog: each message processed exactly once, in order, unless the decisions legitimately terminate a
			aDies := decA.IsStop() || decB.IsStop()
			var got []string
			for _, en := range w.EntriesOf("/s/a") {
				if en.Type == "Msg" && strings.HasPrefix(en.Detail, "m") {
					got = append(got, en.Detail)
				}
			}
			if !aDies && strings.Join(got, ",") != strings.Join(sent, ",") {
				rule("C09", "queued-mail-delivered-in-order", "/s/a failed with %v queued behind the failing message (decisions: %v): it processed %v", sent, w.Decisions, got)
			}
			sysd := actor.VerifSys(w.Sys)
			for _, c := range sysd.Contexts {
				d := actor.VerifCtx(c)
				if d.Paused && !d.Zombie {
					rule("C09", "nobody-stays-paused", "%s is alive but its mailbox is still paused at quiescence (state=%d)", d.Path, d.State)
				}
				if d.State == 1 && !d.Zombie {
					rule("C09", "nobody-half-stopped", "%s is stuck in the stopping state at quiescence (children=%v)", d.Path, d.Children)
				}
				if d.UserQ != 0 || d.SysQ != 0 {
					rule("C09", "mail-consumed", "%s still has queued mail at quiescence (user=%d system=%d paused=%v)", d.Path, d.UserQ, d.SysQ, d.Paused)
				}
			}
			err := w.Sys.Stop()
			vrt.Quiesce()
			if err != nil {
				rule("C09", "stop-after-failure", "System.Stop after the scenario returned %v", err)
			}
			vsys.CheckLifecycle(w)
			x.Outcome(w.Summary() + strings.Join(w.Decisions, ";"))
		},
	}
}

// zombieSiblingScenario: under a one-for-all supervisor a's restart hook fails (a becomes a zombie); later its sibling b fails and
// the directive for b reaches the zombie as well. The zombie stays inert but keeps consuming its mail, and can still be released:
// by a poison kill, by the termination of its parent, by System.Stop.
func zombieSiblingScenario(dec vivid.SupervisionDecision, release string, bounds []int) *vexp.Scenario {
	return &vexp.Scenario{
		Name:   fmt.Sprintf("zombie-then-sibling-fails/dec=%s/release=%s", dec, release),
		Family: "dec=" + dec.String(),
		Cfg:    vsys.Coarse(80000),
		Bounds: bounds,
		Setup:  func(x *vexp.X) { vsys.CoarseSetup() },
		Body: func(x *vexp.X) {
			rule := func(pr, name, format string, a ...any) {
				if pr == *prop {
					x.Fail(strings.ToLower(pr)+"."+name, format, a...)
				}
			}
			w := vsys.NewWorld(x)
			w.Quiet = true
			w.Start()
			boomer := func(a *vsys.Act, ctx vivid.ActorContext, m vsys.Msg) {
				if m.ID == "boom" {
					panic("scripted")
				}
			}
			a := &vsys.Script{Name: "a", OnMsg: boomer, Restarted: func(*vsys.Act) error { return errors.New("scripted restart-hook failure") }}
			b := &vsys.Script{Name: "b", OnMsg: boomer}
			s := &vsys.Script{Name: "s", Children: []*vsys.Script{a, b}}
			s.Strategy = w.Decider("/s", true, dec)
			w.SpawnRoot(s)
			vrt.QuiesceNoTimers()
			ra, rb := w.Ref("/s/a"), w.Ref("/s/b")
			w.Sys.Tell(ra, vsys.Msg{ID: "boom"})
			vrt.Quiesce() // a is a zombie now
			w.Sys.Tell(rb, vsys.Msg{ID: "boom"})
			vrt.Quiesce() // b's directive has reached every child of /s, the zombie included
			w.Sys.Tell(ra, vsys.Msg{ID: "to-the-zombie"})
			vrt.Quiesce()
			for _, en := range w.EntriesOf("/s/a") {
				if en.Type == "Msg" && en.Detail == "to-the-zombie" {
					rule("C09", "zombie-inert", "zombie /s/a ran user code for a message")
				}
			}
			if zc := actor.VerifCtxOf(w.Sys, "/s/a"); zc != nil {
				if d := actor.VerifCtx(zc); d.UserQ != 0 || d.SysQ != 0 {
					rule("C09", "zombie-consumes-mail", "zombie /s/a still has queued mail after its sibling's failure was dealt with: user=%d system=%d paused=%v", d.UserQ, d.SysQ, d.Paused)
				}
			}
			switch release {
			case "poison-kill":
				w.Sys.Kill(ra, true, "release")
			case "parent-graceful":
				w.Sys.Kill(w.Ref("/s"), true, "release")
			}
			vrt.Quiesce()
			if release != "stop" {
				if _, err := w.Sys.FindActor("localhost/s/a"); err == nil {
					rule("C09", "zombie-released-by-kill", "zombie /s/a is still registered after %s", release)
				}
			}
			err := w.Sys.Stop()
			vrt.Quiesce()
			if err != nil {
				rule("C09", "stop-after-failure", "System.Stop after the scenario returned %v", err)
			}
			if reg := actor.VerifSys(w.Sys).Registry; len(reg) != 0 {
				rule("C09", "stop-after-failure", "after System.Stop the registry still holds %v", reg)
			}
			x.Outcome(w.Summary() + strings.Join(w.Decisions, ";"))
		},
		Post: func(x *vexp.X, r *vrt.Result) {
			for _, b := range r.Blocked {
				if *prop == "C09" {
					x.Fail("c09.no-thread-stuck", "thread still blocked after System.Stop: %s", b)
				}
			}
		},
	}
}

var decisions = []vivid.SupervisionDecision{
	vivid.SupervisionDecisionRestart, vivid.SupervisionDecisionGracefulRestart, vivid.SupervisionDecisionStop,
	vivid.SupervisionDecisionGracefulStop, vivid.SupervisionDecisionResume,
}

func build(tier string) []*vexp.Scenario {
	bounds := []int{0, 1}
	if tier == "thorough" {
		bounds = []int{0, 1, 2}
	}
	var out []*vexp.Scenario
	add := func(p params) {
		out = append(out, scenario(p, bounds))
		// hybrid variant: preemption at the lock / atomic operations of packages actor and mailbox
		if p.cause == "panic" && p.pos == 2 && p.hook == "none" && !p.second && (p.site == "msg" || p.site == "launch" || p.site == "childKilled") {
			out = append(out, vexp.Fine(scenario(p, []int{0, 1}), "vivid/internal/actor.", "vivid/internal/mailbox."))
		}
	}
	base := params{site: "msg", cause: "panic", dec: vivid.SupervisionDecisionRestart, dec2: vivid.SupervisionDecisionResume, dec3: vivid.SupervisionDecisionResume, pos: 2, hook: "none"}
	for _, site := range []string{"launch", "msg", "childKilled", "sched"} {
		for _, cause := range []string{"panic", "failed"} {
			for _, d := range decisions {
				for _, all := range []bool{false, true} {
					p := base
					p.site, p.cause, p.dec, p.all = site, cause, d, all
					add(p)
				}
			}
		}
	}
	// escalation chains
	for _, site := range []string{"msg", "launch"} {
		for _, d2 := range []vivid.SupervisionDecision{vivid.SupervisionDecisionRestart, vivid.SupervisionDecisionGracefulRestart, vivid.SupervisionDecisionStop, vivid.SupervisionDecisionGracefulStop, vivid.SupervisionDecisionResume, vivid.SupervisionDecisionEscalate} {
			for _, all := range []bool{false, true} {
				p := base
				p.site, p.dec, p.dec2, p.all = site, vivid.SupervisionDecisionEscalate, d2, all
				add(p)
			}
		}
	}
	// double escalation: a -> s -> t -> u decides
	for _, d3 := range []vivid.SupervisionDecision{vivid.SupervisionDecisionRestart, vivid.SupervisionDecisionGracefulRestart, vivid.SupervisionDecisionStop, vivid.SupervisionDecisionGracefulStop, vivid.SupervisionDecisionResume, vivid.SupervisionDecisionEscalate} {
		for _, all := range []bool{false, true} {
			p := base
			p.dec, p.dec2, p.dec3, p.all = vivid.SupervisionDecisionEscalate, vivid.SupervisionDecisionEscalate, d3, all
			add(p)
		}
	}
	// burst positions
	for _, pos := range []int{1, 3} {
		for _, d := range decisions {
			for _, all := range []bool{false, true} {
				p := base
				p.dec, p.pos, p.all = d, pos, all
				add(p)
			}
		}
	}
	// failure while already stopping
	for _, cause := range []string{"panic", "failed"} {
		for _, site := range []string{"onKill", "childKilledWhileStopping"} {
			for _, d := range []vivid.SupervisionDecision{vivid.SupervisionDecisionRestart, vivid.SupervisionDecisionStop} {
				p := base
				p.site, p.cause, p.dec = site, cause, d
				add(p)
			}
		}
	}
	// second failure of the same child
	for _, d := range []vivid.SupervisionDecision{vivid.SupervisionDecisionRestart, vivid.SupervisionDecisionGracefulRestart, vivid.SupervisionDecisionResume} {
		p := base
		p.dec, p.second = d, true
		add(p)
	}
	for _, cause := range []string{"panic", "failed"} {
		for _, d := range decisions {
			out = append(out, replacedScenario(d, cause, bounds))
		}
	}
	for _, d := range []vivid.SupervisionDecision{vivid.SupervisionDecisionRestart, vivid.SupervisionDecisionGracefulRestart} {
		for _, rel := range []string{"poison-kill", "parent-graceful", "stop"} {
			out = append(out, zombieSiblingScenario(d, rel, bounds))
		}
	}
	for _, da := range decisions {
		for _, db := range decisions {
			out = append(out, siblingsScenario(da, db, bounds))
		}
	}
	// a child with queued mail fails while its parent is in the middle of its own (graceful) restart
	for _, cause := range []string{"panic", "failed"} {
		for _, dg := range decisions {
			p := base
			p.site, p.cause, p.dec, p.decG = "gFailsWhileParentRestarts", cause, vivid.SupervisionDecisionGracefulRestart, dg
			out = append(out, scenario(p, bounds))
		}
	}
	// a second failure (in the OnKilled handler, which runs although the mailbox is paused) while the first decision is pending
	for _, cause := range []string{"panic", "failed"} {
		for _, d := range decisions {
			p := base
			p.site, p.cause, p.dec = "msgThenChildKilled", cause, d
			out = append(out, scenario(p, bounds))
		}
	}
	// state: the failing actor has switched behaviour before it fails (restart resets it, resume keeps it)
	for _, d := range decisions {
		for _, all := range []bool{false, true} {
			p := base
			p.dec, p.all, p.become = d, all, true
			out = append(out, scenario(p, bounds))
		}
	}
	// the supervision command races the failed actor's mailbox going idle: mailbox operations are switch points
	if *prop == "C09" {
		for _, pos := range []int{1, 2} {
			for _, d := range append(append([]vivid.SupervisionDecision{}, decisions...), vivid.SupervisionDecisionEscalate) {
				p := base
				p.dec, p.pos, p.fine = d, pos, true
				if d == vivid.SupervisionDecisionEscalate {
					p.dec2 = vivid.SupervisionDecisionGracefulRestart
				}
				out = append(out, scenario(p, []int{0, 1}))
			}
		}
	}
	// hooks failing during restart
	for _, h := range []string{"restarted-panic", "prelaunch-err", "prerestart-err"} {
		for _, d := range []vivid.SupervisionDecision{vivid.SupervisionDecisionRestart, vivid.SupervisionDecisionGracefulRestart} {
			for _, all := range []bool{false, true} {
				// one-for-all: the sibling b has no hooks of its own and must come back healthy whatever a's hooks do
				p := base
				p.dec, p.hook, p.all = d, h, all
				add(p)
			}
		}
	}
	return out
}

func main() { vexp.Main("C08/C09", "sup", build) }
