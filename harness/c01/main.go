// Harness c01: the real mailbox.UnboundedMailbox (ring size 2, so growth happens inside the
// scenario) under the fine-grained scheduler. Threads send user/system messages and call
// Pause/Resume; the handler may itself send to / pause / resume its own mailbox.
package main

import (
	"fmt"
	"sort"
	"strings"

	"github.com/kercylan98/vivid"
	"github.com/kercylan98/vivid/internal/mailbox"
	"github.com/kercylan98/vivid/internal/verif/vexp"
	"github.com/kercylan98/vivid/internal/verif/vrt"
)

type op struct {
	kind string // "u" user enqueue, "s" system enqueue, "P" pause, "R" resume
}

type body []op

var bodies = map[string]body{
	"u":   {{"u"}},
	"uu":  {{"u"}, {"u"}},
	"s":   {{"s"}},
	"us":  {{"u"}, {"s"}},
	"P":   {{"P"}},
	"R":   {{"R"}},
	"PR":  {{"P"}, {"R"}},
	"PuR": {{"P"}, {"u"}, {"R"}},
	"uuu": {{"u"}, {"u"}, {"u"}},
}

var bodyOrder = []string{"u", "uu", "s", "us", "P", "R", "PR", "PuR"}

// handler reactions, triggered by the first user message handled
var reactions = []string{"none", "follow", "pause", "resume", "pause-resume"}

type rec struct {
	clock          int  // logical time of harness-visible events
	pauseRet       int  // time the latest Pause() returned (0 = never)
	resumeCall     int  // time the latest Resume() was invoked
	lastEnd        int  // time the previous handler invocation ended
	resumePending  int  // Resume() calls in progress
	pendingAtPause bool // a Resume() was in progress when the latest Pause() returned
	x              *vexp.X
	mb             *mailbox.UnboundedMailbox
	in             int
	handled        []string
	reaction       string
	reacted        bool
	seq            int
	accepted       []string
}

func (r *rec) HandleEnvelop(e vivid.Envelop) {
	id := e.Message().(string)
	r.in++
	if r.in > 1 {
		r.x.Fail("one-at-a-time", "handler for %s started while another invocation was in progress", id)
	}
	r.x.Logf("begin %s", id)
	r.handled = append(r.handled, id)
	r.clock++
	if !e.System() && r.pauseRet > 0 && r.resumeCall < r.pauseRet && !r.pendingAtPause && r.lastEnd > r.pauseRet {
		// Pause() had returned, no Resume() has even been invoked since, and the mailbox looked at
		// its paused flag after that (it does so after the previous handler ended): u must wait.
		r.x.Fail("paused-user-waits", "user message %s handled although Pause() had returned (t=%d) before the previous handler ended (t=%d) and no Resume was invoked since", id, r.pauseRet, r.lastEnd)
	}
	vrt.Yield()
	if !e.System() && !r.reacted {
		r.reacted = true
		switch r.reaction {
		case "follow":
			r.send(false, "h")
		case "pause":
			r.pause()
		case "resume":
			r.resume()
		case "pause-resume":
			r.pause()
			vrt.Yield()
			r.resume()
		}
	}
	vrt.Yield()
	r.x.Logf("end %s", id)
	r.clock++
	r.lastEnd = r.clock
	r.in--
}

func (r *rec) pause() {
	r.mb.Pause()
	r.clock++
	r.pauseRet = r.clock
	r.pendingAtPause = r.resumePending > 0
}

func (r *rec) resume() {
	r.clock++
	r.resumeCall = r.clock
	r.resumePending++
	r.mb.Resume()
	r.resumePending--
}

func (r *rec) send(system bool, from string) {
	r.seq++
	k := "u"
	if system {
		k = "s"
	}
	id := fmt.Sprintf("%s%d.%s", k, r.seq, from)
	r.accepted = append(r.accepted, id)
	r.mb.Enqueue(mailbox.NewEnvelop(system, nil, nil, id))
}

func scenario(name string, threads []string, reaction string, initPaused bool, bounds []int) *vexp.Scenario {
	return &vexp.Scenario{
		Name:   name,
		Family: fmt.Sprintf("%dthreads", len(threads)),
		Cfg:    vrt.Config{Cost: vrt.CostPreempt, StepBudget: 20000},
		Bounds: bounds,
		Body: func(x *vexp.X) {
			r := &rec{x: x, reaction: reaction}
			r.mb = mailbox.NewUnboundedMailbox(2, r)
			if initPaused {
				r.pause()
			}
			for ti, tn := range threads {
				b := bodies[tn]
				from := fmt.Sprintf("t%d", ti)
				vrt.Go("sender-"+from, func() {
					for _, o := range b {
						switch o.kind {
						case "u":
							r.send(false, from)
						case "s":
							r.send(true, from)
						case "P":
							r.pause()
						case "R":
							r.resume()
						}
					}
				})
			}
			vrt.Quiesce()
			if live := vrt.LiveThreads(); len(live) > 0 {
				x.Fail("quiescent", "threads still alive at quiescence: %v", live)
			}
			paused := r.mb.IsPaused()
			x.Logf("quiescent paused=%v handled=%d accepted=%d", paused, len(r.handled), len(r.accepted))
			r.check(paused, "phase1")
			if paused {
				// phase 2: resume must release everything that waited
				r.resume()
				vrt.Quiesce()
				if r.mb.IsPaused() {
					// the handler reaction paused it again; resume once more
					r.resume()
					vrt.Quiesce()
				}
				r.check(r.mb.IsPaused(), "phase2")
			}
			hs := append([]string(nil), r.handled...)
			x.Outcome(fmt.Sprintf("paused=%v %s", paused, strings.Join(hs, ",")))
		},
	}
}

func (r *rec) check(paused bool, phase string) {
	seen := map[string]int{}
	for _, h := range r.handled {
		seen[h]++
	}
	acc := map[string]bool{}
	for _, a := range r.accepted {
		acc[a] = true
	}
	var dup, alien, missing []string
	for h, n := range seen {
		if n > 1 {
			dup = append(dup, h)
		}
		if !acc[h] {
			alien = append(alien, h)
		}
	}
	for _, a := range r.accepted {
		if seen[a] == 0 {
			if paused && strings.HasPrefix(a, "u") {
				continue // user messages may wait while paused
			}
			missing = append(missing, a)
		}
	}
	sort.Strings(dup)
	sort.Strings(missing)
	if len(dup) > 0 {
		r.x.Fail("exactly-once", "%s: handled more than once: %v", phase, dup)
	}
	if len(alien) > 0 {
		r.x.Fail("exactly-once", "%s: handled but never accepted: %v", phase, alien)
	}
	if len(missing) > 0 {
		if paused {
			r.x.Fail("system-while-paused", "%s: mailbox quiescent and paused but system messages unprocessed: %v", phase, missing)
		} else {
			r.x.Fail("no-lost-wakeup", "%s: mailbox quiescent and not paused but accepted messages unprocessed: %v", phase, missing)
		}
	}
}

func build(tier string) []*vexp.Scenario {
	var out []*vexp.Scenario
	b2 := []int{0, 1, 2}
	b3 := []int{0, 1}
	if tier == "thorough" {
		b2 = []int{0, 1, 2, 3}
		b3 = []int{0, 1, 2}
	}
	// all unordered pairs of bodies x all reactions x {initially unpaused, paused}
	for i, a := range bodyOrder {
		for _, b := range bodyOrder[i:] {
			for _, re := range reactions {
				for _, ip := range []bool{false, true} {
					hasUser := strings.Contains(a+b, "u")
					if re != "none" && !hasUser {
						continue // reaction never triggers
					}
					name := fmt.Sprintf("2t/%s|%s/react=%s/initPaused=%v", a, b, re, ip)
					bs := b2
					if a == "PuR" && b == "PuR" {
						// the pair in which both senders pause, send and resume: one bound deeper in every tier
						bs = []int{0, 1, 2, 3}
					}
					out = append(out, scenario(name, []string{a, b}, re, ip, bs))
				}
			}
		}
	}
	// three threads: reaction none / follow
	three := [][]string{
		{"u", "u", "u"}, {"u", "u", "s"}, {"u", "s", "P"}, {"u", "P", "R"}, {"uu", "P", "R"}, {"u", "PR", "s"},
		{"uu", "uu", "PR"}, {"u", "PuR", "s"}, {"us", "P", "R"}, {"uu", "s", "PR"},
	}
	for _, th := range three {
		for _, re := range []string{"none", "follow"} {
			name := fmt.Sprintf("3t/%s/react=%s", strings.Join(th, "|"), re)
			out = append(out, scenario(name, th, re, false, b3))
		}
	}
	if tier == "thorough" {
		four := [][]string{{"u", "u", "s", "PR"}, {"uu", "s", "P", "R"}, {"u", "u", "u", "u"}}
		for _, th := range four {
			name := fmt.Sprintf("4t/%s/react=none", strings.Join(th, "|"))
			out = append(out, scenario(name, th, "none", false, []int{0, 1}))
		}
	}
	return out
}

func main() { vexp.Main("C01", "c01", build) }
