// Harness c03: no user message is silently lost. Every numbered user message sent to a local
// address must end up in exactly one place: seen by the behaviour at that address, in its
// stash, or published exactly once as a dead letter. Real actor.System; switches between
// messages, at sends and after mailbox elections.
package main

import (
	"errors"
	"fmt"
	"sort"
	"strings"
	"time"

	"github.com/kercylan98/vivid"
	"github.com/kercylan98/vivid/internal/actor"
	"github.com/kercylan98/vivid/internal/verif/vexp"
	"github.com/kercylan98/vivid/internal/verif/vrt"
	"github.com/kercylan98/vivid/internal/verif/vsys"
)

type params struct {
	state  string // running | kill-now | kill-poison | killing-slow | fail-stop | fail-gstop | fail-restart | fail-grestart | fail-resume | killed | reused | never | zombie | sys-stopped | stash
	prov   string // actorof-warm | actorof-cold | clone | parse | find
	sender string // outside | sibling | scheduled (a sibling hands the messages to the Scheduler: Once, 1..3 ms)
	fine   bool   // lock / atomic operations of packages actor and mailbox are switch points too (preemption inside handlers and sends)
	one    bool   // a single message is sent: nothing that follows it can wake the mailbox on its behalf
}

func (p params) name() string {
	n := fmt.Sprintf("state=%s/ref=%s/sender=%s", p.state, p.prov, p.sender)
	if p.fine {
		n += "/fine"
	}
	if p.one {
		n += "/one-message"
	}
	return n
}

func scenario(p params, bounds []int) *vexp.Scenario {
	cfg := vsys.CoarseSends(150000)
	if p.fine {
		cfg.FinePkgs = []string{"vivid/internal/actor.", "vivid/internal/mailbox."}
	}
	return &vexp.Scenario{
		Name:   p.name(),
		Family: "state=" + p.state,
		Cfg:    cfg,
		Bounds: bounds,
		Setup:  func(x *vexp.X) { vsys.CoarseSetupSends() },
		Body: func(x *vexp.X) {
			var sysOpts []vivid.ActorSystemOption
			topDec := map[string]vivid.SupervisionDecision{"fail-escalate-resume": vivid.SupervisionDecisionResume, "fail-escalate-grestart": vivid.SupervisionDecisionGracefulRestart, "fail-escalate-gstop": vivid.SupervisionDecisionGracefulStop}
			if d, ok := topDec[p.state]; ok {
				// /p escalates the failure of its child t; the system's own strategy (the root's) decides for /p
				sysOpts = append(sysOpts, vivid.WithActorSystemSupervisionStrategy(vivid.OneForOneStrategy(vivid.SupervisionStrategyDecisionMakerFN(
					func(vivid.SupervisionContext) (vivid.SupervisionDecision, string) {
						return d, "scripted top-level decision"
					}))))
			}
			w := vsys.NewWorld(x, sysOpts...)
			w.Quiet = true
			w.Start()
			dec := vivid.SupervisionDecisionStop
			switch p.state {
			case "fail-gstop":
				dec = vivid.SupervisionDecisionGracefulStop
			case "fail-escalate-resume", "fail-escalate-grestart", "fail-escalate-gstop":
				dec = vivid.SupervisionDecisionEscalate
			case "fail-restart", "zombie", "stash-restart":
				dec = vivid.SupervisionDecisionRestart
			case "fail-grestart":
				dec = vivid.SupervisionDecisionGracefulRestart
			case "fail-resume":
				dec = vivid.SupervisionDecisionResume
			}
			var tRef vivid.ActorRef // the reference returned by ActorOf
			gc := &vsys.Script{Name: "gc"}
			c := &vsys.Script{Name: "c", Children: []*vsys.Script{gc}}
			t := &vsys.Script{Name: "t"}
			if p.state == "killing-slow" || p.state == "stopping-paused" || p.state == "grestart-paused" {
				t.Children = []*vsys.Script{c}
			}
			released := false
			if p.state == "stopping-paused" || p.state == "grestart-paused" {
				// the child's OnKill is held, so that t stays in its stopping phase until the driver releases it
				c.OnKill = func(a *vsys.Act, ctx vivid.ActorContext, m *vivid.OnKill) {
					vrt.Block(vrt.KYield, 0, "held OnKill of /p/t/c", func() bool { return released })
				}
			}
			stashed := 0
			stashedIDs := map[string]int{}
			t.OnMsg = func(a *vsys.Act, ctx vivid.ActorContext, m vsys.Msg) {
				switch {
				case m.ID == "boom":
					panic("scripted")
				case m.ID == "unstash":
					ctx.Unstash(5)
				case (p.state == "stash" || p.state == "stash-restart" || p.state == "stash-unstash") && strings.HasPrefix(m.ID, "m") && stashed < 2:
					stashed++
					stashedIDs[m.ID]++
					ctx.Stash()
				}
			}
			selfSent := false
			if p.state == "kill-now" || p.state == "fail-restart" || p.state == "fail-grestart" || p.state == "fail-stop" {
				// the actor sends itself a message from the handler of its OWN termination notice (TellSelf variant of the API):
				// like any other message it is processed (by the next incarnation, on a restart) or becomes a dead letter
				t.OnKilled = func(a *vsys.Act, ctx vivid.ActorContext, m *vivid.OnKilled) {
					if m.Ref.GetPath() == "/p/t" && !selfSent {
						selfSent = true
						ctx.TellSelf(vsys.Msg{ID: "mself"})
					}
				}
			}
			if p.state == "zombie" {
				t.Restarted = func(*vsys.Act) error { return errors.New("scripted restart failure") }
			}
			par := &vsys.Script{Name: "p"}
			par.Strategy = w.Decider("/p", p.state == "stopping-paused", dec)
			if p.state == "grestart-paused" {
				// one-for-all: a failure of t is answered with a graceful restart, a failure of its sibling s with Resume
				par.Strategy = vivid.OneForAllStrategy(vivid.SupervisionStrategyDecisionMakerFN(func(sc vivid.SupervisionContext) (vivid.SupervisionDecision, string) {
					if f := sc.Child().First(); f != nil && f.GetPath() == "/p/s" {
						return vivid.SupervisionDecisionResume, "scripted: sibling"
					}
					return vivid.SupervisionDecisionGracefulRestart, "scripted: target"
				}))
			}
			if p.state == "stopping-paused" || p.state == "grestart-paused" {
				// a sibling whose failure makes the one-for-all supervisor pause and stop all its children
				par.Children = append(par.Children, &vsys.Script{Name: "s", OnMsg: func(a *vsys.Act, ctx vivid.ActorContext, m vsys.Msg) {
					if m.ID == "boom" {
						panic("scripted sibling failure")
					}
				}})
			}
			spawnT := func(a *vsys.Act, ctx vivid.ActorContext) {
				r, err := a.SpawnChild(ctx, t)
				if err != nil {
					x.Fail("harness", "spawn t: %v", err)
				}
				tRef = r
			}
			par.Launch = func(a *vsys.Act, ctx vivid.ActorContext) {
				if p.state != "pre-spawn-use" {
					spawnT(a, ctx)
				}
			}
			par.OnMsg = func(a *vsys.Act, ctx vivid.ActorContext, m vsys.Msg) {
				if m.ID == "spawn-t" {
					spawnT(a, ctx)
				}
				if m.ID == "respawn" {
					if _, err := a.SpawnChild(ctx, &vsys.Script{Name: "t"}); err != nil {
						x.Fail("harness", "respawn t: %v", err)
					}
				}
			}
			var sendRef vivid.ActorRef
			var sent []string
			snd := &vsys.Script{Name: "snd"}
			snd.OnMsg = func(a *vsys.Act, ctx vivid.ActorContext, m vsys.Msg) {
				if m.ID == "go" {
					for i := 1; i <= 3; i++ {
						id := fmt.Sprintf("m%d", i)
						sent = append(sent, id)
						if p.sender == "scheduled" {
							if err := ctx.Scheduler().Once(sendRef, time.Duration(i)*time.Millisecond, vsys.Msg{ID: id}); err != nil {
								x.Fail("harness", "Once: %v", err)
							}
							continue
						}
						ctx.Tell(sendRef, vsys.Msg{ID: id})
					}
				}
			}
			w.SpawnRoot(par)
			w.SpawnRoot(snd)
			vrt.QuiesceNoTimers()
			target := "/p/t"
			if p.state == "never" {
				target = "/p/ghost"
			}
			// obtain the reference
			switch p.prov {
			case "actorof-warm":
				sendRef = tRef
				w.Sys.Tell(sendRef, vsys.Msg{ID: "warmup"})
				vrt.QuiesceNoTimers()
			case "actorof-cold":
				sendRef = tRef
			case "clone":
				sendRef = tRef.Clone()
			case "parse":
				r, err := w.Sys.ParseRef("localhost" + target)
				if err != nil {
					x.Fail("harness", "parse: %v", err)
					return
				}
				sendRef = r
			case "find":
				r, err := w.Sys.FindActor("localhost" + target)
				if err != nil {
					x.Fail("harness", "find: %v", err)
					return
				}
				sendRef = r
			}
			killRef := w.Ref("/p/t")
			// states reached before the sends start
			switch p.state {
			case "pre-spawn-use":
				// the reference is used once while nothing lives at its path, then the actor appears
				w.Sys.Tell(sendRef, vsys.Msg{ID: "early"})
				vrt.QuiesceNoTimers()
				w.Sys.Tell(w.Ref("/p"), vsys.Msg{ID: "spawn-t"})
				vrt.QuiesceNoTimers()
			case "killed":
				w.Sys.Kill(killRef, false, "driver")
				vrt.QuiesceNoTimers()
			case "reused":
				w.Sys.Kill(killRef, false, "driver")
				vrt.QuiesceNoTimers()
				w.Sys.Tell(w.Ref("/p"), vsys.Msg{ID: "respawn"})
				vrt.QuiesceNoTimers()
			case "zombie":
				w.Sys.Tell(killRef, vsys.Msg{ID: "boom"})
				vrt.QuiesceNoTimers()
			case "sys-stopped":
				w.Sys.Stop()
				vrt.QuiesceNoTimers()
			case "stopping-paused":
				// t is stopping (waiting for its held child) when its supervisor pauses and stops all children
				w.Sys.Kill(killRef, false, "driver")
				vrt.QuiesceNoTimers()
				w.Sys.Tell(w.Ref("/p/s"), vsys.Msg{ID: "boom"})
				vrt.QuiesceNoTimers()
			case "grestart-paused":
				// t is in the middle of a graceful restart (waiting for its held child) when a failure of its sibling makes the
				// one-for-all supervisor pause and then resume all children: the restarted t must not stay paused
				w.Sys.Tell(killRef, vsys.Msg{ID: "boom"})
				vrt.QuiesceNoTimers()
				w.Sys.Tell(w.Ref("/p/s"), vsys.Msg{ID: "boom"})
				vrt.QuiesceNoTimers()
			}
			pubsBefore := len(w.Pubs)
			entriesBefore := len(w.Entries)
			// the sends, racing the transition
			doSends := func() {
				if p.sender == "sibling" || p.sender == "scheduled" {
					w.Sys.Tell(w.Ref("/snd"), vsys.Msg{ID: "go"})
					return
				}
				for i := 1; i <= 3 && !(p.one && i > 1); i++ {
					id := fmt.Sprintf("m%d", i)
					sent = append(sent, id)
					w.Sys.Tell(sendRef, vsys.Msg{ID: id})
					vrt.Yield()
				}
			}
			vrt.Go("sender", doSends)
			switch p.state {
			case "stopping-paused", "grestart-paused":
				released = true // the sends race the end of t's stopping phase
			case "kill-now", "killing-slow":
				w.Sys.Kill(killRef, false, "driver")
			case "kill-poison":
				w.Sys.Kill(killRef, true, "driver")
			case "fail-stop", "fail-gstop", "fail-restart", "fail-grestart", "fail-resume", "fail-escalate-resume", "fail-escalate-grestart", "fail-escalate-gstop":
				w.Sys.Tell(killRef, vsys.Msg{ID: "boom"})
			}
			vrt.QuiesceNoTimers()
			if p.sender == "scheduled" {
				// the jobs fire 1, 2 and 3 ms later
				vrt.SetHorizon(vrt.Now() + int64(10*time.Millisecond))
				vrt.Quiesce()
				vrt.SetHorizon(0)
			}
			if p.state == "stash-unstash" {
				// the stashed messages are put back: each of them is then processed (a second visit of the handler)
				w.Sys.Tell(killRef, vsys.Msg{ID: "unstash"})
				vrt.QuiesceNoTimers()
			}
			if p.state == "stash-restart" {
				// the actor holds stashed mail when it fails on another message and is restarted: the stash belongs to the
				// reference, it survives (and its content is accounted for like any other message)
				w.Sys.Tell(killRef, vsys.Msg{ID: "boom"})
				vrt.QuiesceNoTimers()
			}

			// ---------------- oracle: conservation ----------------
			if p.state == "sys-stopped" {
				for _, en := range w.Entries[entriesBefore:] {
					if en.Type == "Msg" {
						x.Fail("stopped-system-inert", "system stopped but %s still handled %s", en.Actor, en.Detail)
					}
				}
				x.Outcome("stopped")
				return
			}
			seen := map[string]int{}
			for _, en := range w.Entries {
				if en.Type == "Msg" && strings.HasPrefix(en.Detail, "m") && en.Actor != "/snd" {
					seen[en.Detail]++
					if en.Actor != target {
						x.Fail("delivered-to-addressee-only", "%s was addressed to %s but handled by %s", en.Detail, target, en.Actor)
					}
				}
			}
			dead := map[string]int{}
			for _, pb := range w.Pubs[pubsBefore:] {
				if pb.Type == "DeathLetter" || pb.Type == "DeathLetterEvent" {
					for _, id := range append(append([]string(nil), sent...), "mself") {
						// (a message that travelled through the Scheduler is dead-lettered in its wrapper)
						if strings.HasPrefix(pb.Detail, "Msg("+id+")") || (strings.Contains(pb.Detail, "SchedulerMessage(") && strings.Contains(pb.Detail, " {"+id+"}})")) {
							dead[id]++
						}
					}
				}
			}
			inStash := 0
			for _, cx := range w.Ctxs {
				d := actor.VerifCtx(cx)
				if d.Path == target {
					inStash += d.Stash
				}
			}
			var outcome []string
			stashBudget := inStash
			ids := append([]string(nil), sent...)
			if selfSent {
				ids = append(ids, "mself")
			}
			sort.Strings(ids)
			for _, id := range ids {
				s, d := seen[id], dead[id]
				if p.state == "stash-unstash" {
					s -= stashedIDs[id] // the visit in which it was stashed is not its processing
				}
				// a stashed message was seen once (when it was stashed) and sits in the stash: it
				// counts as "stashed", and must not also be dead-lettered
				switch {
				case p.state == "zombie":
					if s > 0 {
						x.Fail("zombie-inert", "zombie handled %s with user code", id)
					}
				case s+d == 0:
					x.Fail("message-lost", "%s sent to %s (%s) was neither processed nor dead-lettered (stash=%d)", id, target, p.state, inStash)
				case s > 1:
					x.Fail("message-duplicated", "%s was processed %d times", id, s)
				case d > 1:
					x.Fail("dead-letter-once", "%s was published as a dead letter %d times", id, d)
				case s > 0 && d > 0:
					x.Fail("message-duplicated", "%s was both processed and dead-lettered", id)
				}
				outcome = append(outcome, fmt.Sprintf("%s:s%d/d%d", id, s, d))
			}
			_ = stashBudget
			// (an escalated graceful restart / stop concerns /p: its child t is terminated with it, conservation is all that is required there)
			mustProcess := p.state == "grestart-paused" || p.state == "stash-unstash" || p.state == "fail-escalate-resume" || p.state == "running" || p.state == "pre-spawn-use" || p.state == "fail-resume" || p.state == "fail-restart" || p.state == "fail-grestart" ||
				(p.state == "reused" && (p.prov == "parse" || p.prov == "clone")) // FindActor returns the registered Ref object itself, bound to the old incarnation like the ActorOf reference
			if mustProcess {
				for _, id := range ids {
					if p.state == "stash-unstash" {
						if seen[id] != 1+stashedIDs[id] {
							x.Fail("delivered-when-alive", "%s was sent to %s (stashed %d times, then un-stashed) but the handler saw it %d times (dead-lettered %d times)", id, target, stashedIDs[id], seen[id], dead[id])
						}
						continue
					}
					if seen[id] != 1 {
						x.Fail("delivered-when-alive", "%s was sent to %s, which is alive (%s, reference: %s), but was processed %d times (dead-lettered %d times)", id, target, p.state, p.prov, seen[id], dead[id])
					}
				}
			}
			if p.state == "stash-unstash" && inStash != 0 {
				x.Fail("stash-holds", "everything was un-stashed but the stash still holds %d messages", inStash)
			}
			if (p.state == "stash" || p.state == "stash-restart") && inStash != stashed {
				x.Fail("stash-holds", "actor stashed %d messages but its stash holds %d", stashed, inStash)
			}
			// stranded mail: a mailbox that still holds user messages at quiescence, while not paused-alive, lost them
			for _, cx := range w.Ctxs {
				d := actor.VerifCtx(cx)
				if d.UserQ > 0 || d.SysQ > 0 {
					x.Fail("message-lost", "%s (state=%d paused=%v zombie=%v) still holds %d user / %d system messages at quiescence", d.Path, d.State, d.Paused, d.Zombie, d.UserQ, d.SysQ)
				}
			}
			x.Outcome(strings.Join(outcome, " "))
			x.Logf("outcome %v", outcome)
			vrt.Freeze()
			w.Sys.Stop()
			vrt.QuiesceNoTimers()
		},
	}
}

func build(tier string) []*vexp.Scenario {
	bounds := []int{0, 1}
	if tier == "thorough" {
		bounds = []int{0, 1, 2}
	}
	var out []*vexp.Scenario
	states := []string{"grestart-paused", "stash-unstash", "fail-escalate-resume", "fail-escalate-grestart", "fail-escalate-gstop", "stash-restart", "stopping-paused", "running", "kill-now", "kill-poison", "killing-slow", "fail-stop", "fail-gstop", "fail-restart", "fail-grestart", "fail-resume", "killed", "reused", "zombie", "sys-stopped", "stash"}
	provs := []string{"actorof-warm", "actorof-cold", "clone", "parse", "find"}
	for _, st := range states {
		for _, pv := range provs {
			for _, sd := range []string{"outside", "sibling"} {
				out = append(out, scenario(params{state: st, prov: pv, sender: sd}, bounds))
			}
		}
	}
	for _, sd := range []string{"outside", "sibling"} {
		out = append(out, scenario(params{state: "never", prov: "parse", sender: sd}, bounds))
		out = append(out, scenario(params{state: "pre-spawn-use", prov: "parse", sender: sd}, bounds))
	}
	// the messages travel through the Scheduler (Once) of a sibling instead of Tell
	for _, st := range []string{"running", "stash", "stash-unstash", "stash-restart", "kill-now", "fail-restart", "fail-stop", "killed"} {
		for _, pv := range []string{"actorof-cold", "parse"} {
			out = append(out, scenario(params{state: st, prov: pv, sender: "scheduled"}, bounds))
		}
	}
	// preemption inside handlers and sends: the sends race the target's state change at lock / atomic granularity
	for _, st := range states {
		for _, pv := range []string{"actorof-cold", "parse"} {
			st, pv := st, pv
			out = append(out, vexp.Split(2, func() *vexp.Scenario {
				return scenario(params{state: st, prov: pv, sender: "outside", fine: true}, bounds)
			})...)
			if (st == "fail-resume" || st == "fail-restart" || st == "fail-stop") && pv == "actorof-cold" {
				// one single send overlapping the un-pausing (or the termination) of its target at the granularity of the mailbox's own
				// atomics, one bound deeper: no later message can wake the mailbox on its behalf
				out = append(out, vexp.Split(4, func() *vexp.Scenario {
					return scenario(params{state: st, prov: pv, sender: "outside", fine: true, one: true}, []int{0, 1, 2})
				})...)
			}
		}
	}
	return out
}

func main() { vexp.Main("C03", "c03", build) }
