// Harness c02mb: ordering of the real UnboundedMailbox under concurrent senders (fine mode):
// per-sender FIFO, real-time FIFO inside one queue, system-before-user priority.
package main

import (
	"fmt"
	"strings"

	"github.com/kercylan98/vivid"
	"github.com/kercylan98/vivid/internal/mailbox"
	"github.com/kercylan98/vivid/internal/verif/vexp"
	"github.com/kercylan98/vivid/internal/verif/vrt"
)

type msg struct {
	id      string
	sender  int
	n       int
	system  bool
	enqCall int
	enqRet  int
	begin   int
	end     int
}

type rec struct {
	x     *vexp.X
	clock int
	msgs  map[string]*msg
	order []*msg
}

func (r *rec) HandleEnvelop(e vivid.Envelop) {
	m := r.msgs[e.Message().(string)]
	r.clock++
	m.begin = r.clock
	r.order = append(r.order, m)
	vrt.Yield()
	r.clock++
	m.end = r.clock
}

func scenario(name string, senders []string, ring int64, bounds []int) *vexp.Scenario {
	return &vexp.Scenario{
		Name:   name,
		Family: fmt.Sprintf("%dsenders", len(senders)),
		Cfg:    vrt.Config{Cost: vrt.CostPreempt, StepBudget: 50000},
		Bounds: bounds,
		Body: func(x *vexp.X) {
			r := &rec{x: x, msgs: map[string]*msg{}}
			mb := mailbox.NewUnboundedMailbox(ring, r)
			for si, body := range senders {
				si, body := si, body
				vrt.Go(fmt.Sprintf("sender%d", si), func() {
					for n, k := range body {
						m := &msg{id: fmt.Sprintf("%c%d.%d", k, si, n), sender: si, n: n, system: k == 's'}
						r.msgs[m.id] = m
						r.clock++
						m.enqCall = r.clock
						mb.Enqueue(mailbox.NewEnvelop(m.system, nil, nil, m.id))
						r.clock++
						m.enqRet = r.clock
					}
				})
			}
			vrt.Quiesce()
			var ids []string
			for _, m := range r.order {
				ids = append(ids, m.id)
			}
			x.Logf("handled %v", ids)
			x.Outcome(strings.Join(ids, " "))
			if len(r.order) != len(r.msgs) {
				x.Fail("all-handled", "%d of %d messages handled", len(r.order), len(r.msgs))
			}
			pos := map[string]int{}
			for i, m := range r.order {
				pos[m.id] = i
			}
			for _, a := range r.order {
				for _, b := range r.order {
					if a == b {
						continue
					}
					// per sender and per queue: program order is preserved
					if a.sender == b.sender && a.system == b.system && a.n < b.n && pos[a.id] > pos[b.id] {
						x.Fail("per-sender-fifo", "sender %d sent %s before %s but %s was handled first", a.sender, a.id, b.id, b.id)
					}
					// real-time FIFO inside one queue
					if a.system == b.system && a.enqRet < b.enqCall && pos[a.id] > pos[b.id] {
						x.Fail("queue-fifo", "%s was enqueued (returned) before %s was sent, yet %s was handled first", a.id, b.id, b.id)
					}
				}
			}
			// priority: a system message whose Enqueue returned before some handler began is handled
			// before every user message that is handled after that handler
			for _, s := range r.order {
				if !s.system {
					continue
				}
				for _, xm := range r.order {
					if s.enqRet < xm.begin && pos[xm.id] < pos[s.id] {
						for _, u := range r.order {
							if !u.system && pos[u.id] > pos[xm.id] && pos[u.id] < pos[s.id] {
								x.Fail("system-before-user", "system message %s was pending (enqueue returned) when %s began, yet user message %s was handled before it", s.id, xm.id, u.id)
							}
						}
					}
				}
			}
		},
	}
}

func build(tier string) []*vexp.Scenario {
	b2, b3 := []int{0, 1, 2}, []int{0, 1}
	if tier == "thorough" {
		b2, b3 = []int{0, 1, 2, 3}, []int{0, 1, 2}
	}
	var out []*vexp.Scenario
	two := [][]string{{"uuu", "uuu"}, {"uuu", "ss"}, {"usu", "sus"}, {"uu", "s"}, {"uuuu", "us"}, {"ss", "ss"}, {"uus", "uus"}, {"suu", "uus"}}
	for _, s := range two {
		for _, ring := range []int64{1, 2, 4} {
			out = append(out, scenario(fmt.Sprintf("2s/%s/ring=%d", strings.Join(s, "|"), ring), s, ring, b2))
		}
	}
	three := [][]string{{"uu", "uu", "ss"}, {"uu", "us", "su"}, {"uuu", "s", "s"}, {"u", "u", "s"}}
	for _, s := range three {
		out = append(out, scenario(fmt.Sprintf("3s/%s/ring=2", strings.Join(s, "|")), s, 2, b3))
	}
	return out
}

func main() { vexp.Main("C02", "c02mb", build) }
