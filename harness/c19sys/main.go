// Harness c19sys: the event stream inside a running actor.System (coarse scheduling with
// switch points at sends): per-publisher order, double subscription, unsubscribe, subscriber
// termination (incl. zombies and events published in reaction to the termination) and restart.
package main

import (
	"errors"
	"fmt"
	"sort"
	"strings"

	"github.com/kercylan98/vivid"
	"github.com/kercylan98/vivid/internal/actor"
	"github.com/kercylan98/vivid/internal/verif/vexp"
	"github.com/kercylan98/vivid/internal/verif/vrt"
	"github.com/kercylan98/vivid/internal/verif/vsys"
	"github.com/kercylan98/vivid/pkg/ves"
)

type tick struct{ ID string }
type tock struct{ ID string }
type tack struct{ ID string }

type params struct {
	kind string // order | twice | unsub | unsuball | die | die-reactive | zombie-die | restart | own-killed
	pubs int    // publishers
}

func (p params) name() string { return fmt.Sprintf("%s/publishers=%d", p.kind, p.pubs) }

func isDead(t string) bool { return t == "DeathLetterEvent" || t == "DeathLetter" }

func scenario(p params, bounds []int) *vexp.Scenario {
	return &vexp.Scenario{
		Name:   p.name(),
		Family: p.kind,
		Cfg:    vsys.CoarseSends(120000),
		Bounds: bounds,
		Setup:  func(x *vexp.X) { vsys.CoarseSetupSends() },
		Body: func(x *vexp.X) {
			w := vsys.NewWorld(x)
			w.Quiet = true
			w.Start()
			var seen []string // what the subscriber's behaviour saw: "inc:event"
			subLaunches := 0
			sub := &vsys.Script{Name: "sub"}
			sub.Launch = func(a *vsys.Act, ctx vivid.ActorContext) {
				subLaunches++
				if subLaunches == 1 {
					ctx.EventStream().Subscribe(ctx, tick{})
					if p.kind == "twice" {
						ctx.EventStream().Subscribe(ctx, tick{})
					}
					if p.kind == "unsuball" {
						ctx.EventStream().Subscribe(ctx, tock{})
					}
					if p.kind == "own-killed" || p.kind == "die" {
						ctx.EventStream().Subscribe(ctx, ves.ActorKilledEvent{})
					}
				}
			}
			sub.OnOther = func(a *vsys.Act, ctx vivid.ActorContext, m any) {
				switch e := m.(type) {
				case tick:
					seen = append(seen, fmt.Sprintf("%d:%s", len(w.Incs["/p/sub"]), e.ID))
				case tock:
					seen = append(seen, fmt.Sprintf("%d:%s", len(w.Incs["/p/sub"]), e.ID))
				case ves.ActorKilledEvent:
					if e.ActorRef.GetPath() == "/p/sub" {
						x.Fail("not-delivered-after-termination", "the subscriber received the ActorKilledEvent announcing its own termination")
					}
				}
			}
			sub.OnMsg = func(a *vsys.Act, ctx vivid.ActorContext, m vsys.Msg) {
				switch m.ID {
				case "unsub":
					ctx.EventStream().Unsubscribe(ctx, tick{})
					seen = append(seen, "UNSUB")
				case "unsuball":
					ctx.EventStream().UnsubscribeAll(ctx)
					seen = append(seen, "UNSUB")
				case "boom":
					panic("scripted")
				}
			}
			if p.kind == "zombie-die" {
				sub.Restarted = func(*vsys.Act) error { return errors.New("scripted") }
			}
			par := &vsys.Script{Name: "p", Children: []*vsys.Script{sub}}
			par.Strategy = w.Decider("/p", false, vivid.SupervisionDecisionRestart)
			if p.kind == "die-reactive" {
				// the parent publishes in reaction to the observed termination
				par.OnKilled = func(a *vsys.Act, ctx vivid.ActorContext, m *vivid.OnKilled) {
					if m.Ref.GetPath() == "/p/sub" {
						ctx.EventStream().Publish(ctx, tick{ID: "reaction"})
					}
				}
			}
			var sent [][]string
			for i := 0; i < p.pubs; i++ {
				i := i
				sent = append(sent, nil)
				pb := &vsys.Script{Name: fmt.Sprintf("pub%d", i)}
				pb.OnMsg = func(a *vsys.Act, ctx vivid.ActorContext, m vsys.Msg) {
					n := 1
					if m.ID == "burst" {
						n = 3
					}
					for k := 0; k < n; k++ {
						id := fmt.Sprintf("e%d.%d", i, len(sent[i])+1)
						sent[i] = append(sent[i], id)
						ctx.EventStream().Publish(ctx, tick{ID: id})
					}
				}
				w.SpawnRoot(pb)
			}
			w.SpawnRoot(par)
			vrt.QuiesceNoTimers()
			pub := func(i int, how string) { w.Sys.Tell(w.Ref(fmt.Sprintf("/pub%d", i)), vsys.Msg{ID: how}); vrt.Yield() }
			subRef := w.Ref("/p/sub")
			switch p.kind {
			case "order", "twice":
				for i := 0; i < p.pubs; i++ {
					pub(i, "burst")
					pub(i, "one")
				}
			case "unsub", "unsuball":
				pub(0, "one")
				w.Sys.Tell(subRef, vsys.Msg{ID: p.kind})
				vrt.Yield()
				for i := 0; i < p.pubs; i++ {
					pub(i, "one")
				}
			case "die", "die-reactive", "own-killed":
				pub(0, "one")
				w.Sys.Kill(subRef, false, "driver")
				vrt.Yield()
				for i := 0; i < p.pubs; i++ {
					pub(i, "one")
				}
			case "zombie-die":
				w.Sys.Tell(subRef, vsys.Msg{ID: "boom"})
				vrt.QuiesceNoTimers()
				w.Sys.Kill(subRef, false, "driver")
			case "restart":
				pub(0, "one")
				w.Sys.Tell(subRef, vsys.Msg{ID: "boom"})
				vrt.Yield()
				pub(0, "one")
			}
			vrt.QuiesceNoTimers()
			afterMark := len(seen)
			deadBefore := 0
			for _, pb := range w.Pubs {
				if isDead(pb.Type) {
					deadBefore++
				}
			}
			// a final round after everything settled
			for i := 0; i < p.pubs; i++ {
				pub(i, "one")
			}
			vrt.QuiesceNoTimers()
			final := seen[afterMark:]

			// ---------------- oracle ----------------
			evs := func(list []string) []string {
				var out []string
				for _, s := range list {
					if s != "UNSUB" {
						out = append(out, s[strings.Index(s, ":")+1:])
					}
				}
				return out
			}
			all := evs(seen)
			count := map[string]int{}
			for _, e := range all {
				count[e]++
				if count[e] > 1 {
					x.Fail("delivered-once", "event %s was delivered %d times to the subscriber", e, count[e])
				}
			}
			for i := range sent {
				last := -1
				for _, e := range all {
					for k, s := range sent[i] {
						if s == e {
							if k < last {
								x.Fail("per-publisher-order", "events of publisher %d arrived out of order: %v (published %v)", i, all, sent[i])
							}
							last = k
						}
					}
				}
			}
			sysd := actor.VerifSys(w.Sys)
			entry := len(sysd.SubscriberTypes["/p/sub"]) > 0
			for _, ss := range sysd.Subscribers {
				for _, s := range ss {
					if s == "/p/sub" {
						entry = true
					}
				}
			}
			switch p.kind {
			case "order", "twice":
				total := 0
				for i := range sent {
					total += len(sent[i])
				}
				if len(all) != total {
					x.Fail("delivered-to-subscriber", "subscribed throughout: %d events published, %d delivered (%v)", total, len(all), all)
				}
			case "unsub", "unsuball":
				if len(evs(final)) != 0 {
					x.Fail("not-delivered-after-unsubscribe", "events %v were delivered although they were published after Unsubscribe returned", evs(final))
				}
				if entry {
					x.Fail("tables-clean", "the stream still holds an entry for the unsubscribed actor")
				}
			case "die", "die-reactive", "own-killed", "zombie-die":
				if len(evs(final)) != 0 {
					x.Fail("not-delivered-after-termination", "events %v were delivered to a terminated subscriber", evs(final))
				}
				if entry {
					x.Fail("tables-clean", "the stream still holds an entry for the terminated subscriber")
				}
				for _, e := range all {
					if e == "reaction" {
						x.Fail("not-delivered-after-termination", "an event published in reaction to the subscriber's termination was delivered to it")
					}
				}
				nowDead := 0
				for _, pb := range w.Pubs {
					if isDead(pb.Type) {
						nowDead++
						// the event published in reaction to the observed termination is certainly "after"
						if strings.Contains(pb.Detail, "reaction") && strings.HasSuffix(pb.Detail, "->/p/sub") {
							x.Fail("no-dead-letter-for-terminated-subscriber", "an event published after the subscriber terminated was routed to it and dead-lettered: %s", pb.Detail)
						}
					}
				}
				if nowDead != deadBefore {
					x.Fail("no-dead-letter-for-terminated-subscriber", "publishing after the subscriber terminated produced %d dead letters", nowDead-deadBefore)
				}
			case "restart":
				if len(w.PubsOf("ActorRestartedEvent")) != 1 {
					x.Fail("harness", "restart did not happen")
				}
				if len(evs(final)) != p.pubs {
					x.Fail("restart-keeps-subscriptions", "after the restart %d events were published, the new incarnation received %v", p.pubs, evs(final))
				}
				for _, s := range final {
					if !strings.HasPrefix(s, "2:") {
						x.Fail("restart-keeps-subscriptions", "event %s after the restart was not handled by the new incarnation", s)
					}
				}
			}
			x.Outcome(strings.Join(seen, " "))
			x.Logf("seen %v", seen)
			w.Sys.Stop()
			vrt.QuiesceNoTimers()
		},
	}
}

// dupSpawnScenario: somebody tries to spawn an actor under the name of a live subscriber and is (rightly) refused; the
// live subscriber keeps receiving events.
func dupSpawnScenario(byParent bool, bounds []int) *vexp.Scenario {
	return &vexp.Scenario{
		Name:   fmt.Sprintf("refused-duplicate-spawn/by-parent=%v", byParent),
		Family: "dup-spawn",
		Cfg:    vsys.CoarseSends(120000),
		Bounds: bounds,
		Setup:  func(x *vexp.X) { vsys.CoarseSetupSends() },
		Body: func(x *vexp.X) {
			w := vsys.NewWorld(x)
			w.Quiet = true
			w.Start()
			var seen []string
			mkSub := func() *vsys.Script {
				return &vsys.Script{Name: "sub",
					Launch: func(a *vsys.Act, ctx vivid.ActorContext) { ctx.EventStream().Subscribe(ctx, tick{}) },
					OnOther: func(a *vsys.Act, ctx vivid.ActorContext, m any) {
						if e, ok := m.(tick); ok {
							seen = append(seen, e.ID)
						}
					}}
			}
			refused := false
			par := &vsys.Script{Name: "p", Children: []*vsys.Script{mkSub()}}
			par.OnMsg = func(a *vsys.Act, ctx vivid.ActorContext, m vsys.Msg) {
				if m.ID == "dup" {
					_, err := a.SpawnChild(ctx, mkSub())
					refused = err != nil
				}
			}
			w.SpawnRoot(par)
			w.SpawnRoot(mkSub()) // a top-level subscriber of the same name elsewhere in the tree
			vrt.QuiesceNoTimers()
			before := len(seen)
			w.Sys.EventStream().Publish(w.Sys, tick{ID: "e1"})
			vrt.QuiesceNoTimers()
			if byParent {
				w.Sys.Tell(w.Ref("/p"), vsys.Msg{ID: "dup"})
			} else {
				_, err := w.SpawnRoot(mkSub())
				refused = err != nil
			}
			vrt.QuiesceNoTimers()
			if !refused {
				x.Fail("harness", "the duplicate spawn was not refused")
			}
			w.Sys.EventStream().Publish(w.Sys, tick{ID: "e2"})
			vrt.QuiesceNoTimers()
			got := strings.Join(seen[before:], ",")
			sortedGot := strings.Split(got, ",")
			sort.Strings(sortedGot)
			if strings.Join(sortedGot, ",") != "e1,e1,e2,e2" {
				x.Fail("delivered-to-every-subscriber", "two live subscribers (/sub and /p/sub); after a refused attempt to spawn another actor under one of their names they saw %v of the events e1, e2 (each should see both)", seen[before:])
			}
			x.Outcome(got)
			w.Sys.Stop()
			vrt.QuiesceNoTimers()
		},
	}
}

// prelaunchScenario: the documented variant of subscribing before the actor exists - in OnPrelaunch, through
// PrelaunchContext.EventStream(). Events published after ActorOf returned must reach the actor (exactly once each), whatever
// was published while it was being created; the same across a restart, and the subscription of an actor whose creation
// was refused must not divert events to its namesake.
//
// window: "none" nobody publishes before ActorOf returns | "self" the actor itself publishes from OnPrelaunch |
// "other" another thread publishes while the actor is being created (schedule-dependent)
//
// refusal: how the creation of the second actor fails after its OnPrelaunch subscribed - "name-taken" (ActorOf refuses it) |
// "prelaunch-fails" (its own OnPrelaunch returns an error after subscribing) | "prelaunch-fails-then-spawned" (as before, under
// a name that is free at that time and is then given to an actor that subscribes to nothing)
func prelaunchScenario(window string, restart bool, refusal string, bounds []int) *vexp.Scenario {
	cfg := vsys.CoarseSends(200000)
	cfg.SwitchOnSpawn = true
	return &vexp.Scenario{
		Name:   fmt.Sprintf("subscribe-in-prelaunch/window=%s/restart=%v/refusal=%s", window, restart, refusal),
		Family: "prelaunch",
		Cfg:    cfg,
		Bounds: bounds,
		Setup:  func(x *vexp.X) { vsys.CoarseSetupSends() },
		Body: func(x *vexp.X) {
			w := vsys.NewWorld(x)
			w.Quiet = true
			w.Start()
			var seen, tacks []string
			sub := &vsys.Script{Name: "sub",
				PrelaunchCtx: func(a *vsys.Act, ctx vivid.PrelaunchContext, n int) {
					if n > 0 {
						// restarted incarnation: the subscription of the path is still there; it subscribes to one more type
						// from the OnPrelaunch of the restart
						ctx.EventStream().Subscribe(ctx, tack{})
						return
					}
					ctx.EventStream().Subscribe(ctx, tick{})
					if window == "self" {
						ctx.EventStream().Publish(ctx, tick{ID: "w0"})
					}
				},
				OnMsg: func(a *vsys.Act, ctx vivid.ActorContext, m vsys.Msg) {
					if m.ID == "boom" {
						panic("boom")
					}
				},
				OnOther: func(a *vsys.Act, ctx vivid.ActorContext, m any) {
					if e, ok := m.(tick); ok {
						seen = append(seen, e.ID)
					}
					if e, ok := m.(tock); ok {
						seen = append(seen, "tock:"+e.ID)
					}
					if e, ok := m.(tack); ok {
						tacks = append(tacks, e.ID)
					}
				}}
			if window == "other" {
				vrt.Go("publisher", func() { w.Sys.EventStream().Publish(w.Sys, tick{ID: "w0"}) })
			}
			refused := false
			var lateSeen []string
			par := &vsys.Script{Name: "p", Children: []*vsys.Script{sub}, Strategy: w.Decider("/p", false, vivid.SupervisionDecisionRestart)}
			par.OnMsg = func(a *vsys.Act, ctx vivid.ActorContext, m vsys.Msg) {
				if m.ID == "dup" {
					// the refused namesake: subscribes in its OnPrelaunch, is then refused (name taken)
					dup := &vsys.Script{Name: "sub", PrelaunchCtx: func(a *vsys.Act, ctx vivid.PrelaunchContext, n int) {
						ctx.EventStream().Subscribe(ctx, tick{})
						ctx.EventStream().Subscribe(ctx, tock{}) // a type the live namesake never subscribed to
					}}
					if refusal != "name-taken" {
						dup.Prelaunch = func(n int) error { return fmt.Errorf("scripted prelaunch failure") }
					}
					if refusal == "prelaunch-fails-then-spawned" {
						dup.Name = "late"
					}
					_, err := a.SpawnChild(ctx, dup)
					refused = err != nil
					if refusal == "prelaunch-fails-then-spawned" {
						// the name is then given to an actor that subscribes to nothing
						if _, err := a.SpawnChild(ctx, &vsys.Script{Name: "late", OnOther: func(a *vsys.Act, ctx vivid.ActorContext, m any) {
							switch e := m.(type) {
							case tick:
								lateSeen = append(lateSeen, e.ID)
							case tock:
								lateSeen = append(lateSeen, "tock:"+e.ID)
							}
						}}); err != nil {
							x.Fail("harness", "spawning /p/late failed: %v", err)
						}
					}
				}
			}
			if _, err := w.SpawnRoot(par); err != nil {
				x.Fail("harness", "spawn failed: %v", err)
			}
			vrt.QuiesceNoTimers()
			inWindow := len(seen) // w0 may or may not have been published while the actor was subscribed
			w.Sys.EventStream().Publish(w.Sys, tick{ID: "e1"})
			vrt.QuiesceNoTimers()
			if restart {
				w.Sys.Tell(w.Ref("/p/sub"), vsys.Msg{ID: "boom"})
				vrt.QuiesceNoTimers()
			}
			w.Sys.EventStream().Publish(w.Sys, tick{ID: "e2"})
			w.Sys.EventStream().Publish(w.Sys, tack{ID: "t1"})
			vrt.QuiesceNoTimers()
			if want := map[bool]string{true: "t1", false: ""}[restart]; strings.Join(tacks, ",") != want {
				x.Fail("delivered-to-every-subscriber", "the restarted incarnation subscribed to a further type in the OnPrelaunch of its restart (restart=%v); of the event t1 of that type published afterwards it saw %v", restart, tacks)
			}
			if got := strings.Join(seen[inWindow:], ","); got != "e1,e2" {
				x.Fail("delivered-to-every-subscriber", "an actor that subscribed in OnPrelaunch saw %v of the events e1, e2 published after ActorOf had returned (events seen before: %v)", seen[inWindow:], seen[:inWindow])
			}
			if window == "self" && inWindow == 0 {
				x.Fail("event-during-creation-delivered", "the actor subscribed to the type in OnPrelaunch and then published an event of it from OnPrelaunch: subscribed at the time of publication, yet it never received the event (events seen: %v)", seen)
			}
			if inWindow > 1 {
				x.Fail("delivered-once", "the event published while the subscriber was being created was delivered %d times", inWindow)
			}
			// events still go to the live actor, once
			w.Sys.Tell(w.Ref("/p"), vsys.Msg{ID: "dup"})
			vrt.QuiesceNoTimers()
			if !refused {
				x.Fail("harness", "the duplicate spawn was not refused")
			}
			before := len(seen)
			w.Sys.EventStream().Publish(w.Sys, tick{ID: "e3"})
			vrt.QuiesceNoTimers()
			if got := strings.Join(seen[before:], ","); got != "e3" {
				x.Fail("delivered-to-every-subscriber", "after a refused attempt to spawn a namesake (which subscribed in its OnPrelaunch) the live subscriber saw %v of the event e3", seen[before:])
			}
			before = len(seen)
			w.Sys.EventStream().Publish(w.Sys, tock{ID: "k1"})
			vrt.QuiesceNoTimers()
			if len(lateSeen) > 0 {
				x.Fail("refused-namesake-subscription-diverted", "/p/late subscribed to nothing; an earlier actor of that name, whose OnPrelaunch failed after subscribing, left its subscriptions behind and /p/late receives %v", lateSeen)
			}
			if len(seen) != before {
				x.Fail("refused-namesake-subscription-diverted", "the live actor /p/sub never subscribed to tock; a namesake whose creation was refused had subscribed to it in its OnPrelaunch, and now the live actor receives %v", seen[before:])
			}
			x.Outcome(strings.Join(seen, ","))
			w.Sys.Stop()
			vrt.QuiesceNoTimers()
		},
	}
}

// fanoutScenario: n subscribers of one type, one publisher publishing three events from one handler: each subscriber
// sees each event exactly once, in publication order - whatever n is.
func fanoutScenario(n int, bounds []int) *vexp.Scenario {
	cfg := vsys.CoarseSends(400000)
	cfg.SwitchOnSpawn = true
	return &vexp.Scenario{
		Name:   fmt.Sprintf("fan-out/subscribers=%d", n),
		Family: "fan-out",
		Cfg:    cfg,
		Bounds: bounds,
		Setup:  func(x *vexp.X) { vsys.CoarseSetupSends() },
		Body: func(x *vexp.X) {
			w := vsys.NewWorld(x)
			w.Quiet = true
			w.Start()
			seen := make([][]string, n)
			for i := 0; i < n; i++ {
				i := i
				w.SpawnRoot(&vsys.Script{Name: fmt.Sprintf("s%03d", i),
					Launch: func(a *vsys.Act, ctx vivid.ActorContext) { ctx.EventStream().Subscribe(ctx, tick{}) },
					OnOther: func(a *vsys.Act, ctx vivid.ActorContext, m any) {
						if e, ok := m.(tick); ok {
							seen[i] = append(seen[i], e.ID)
						}
					}})
			}
			w.SpawnRoot(&vsys.Script{Name: "pub", OnMsg: func(a *vsys.Act, ctx vivid.ActorContext, m vsys.Msg) {
				for _, id := range []string{"e1", "e2", "e3"} {
					ctx.EventStream().Publish(ctx, tick{ID: id})
				}
			}})
			vrt.QuiesceNoTimers()
			w.Sys.Tell(w.Ref("/pub"), vsys.Msg{ID: "go"})
			vrt.QuiesceNoTimers()
			bad := 0
			for i := range seen {
				if strings.Join(seen[i], ",") != "e1,e2,e3" {
					bad++
					if bad <= 3 {
						x.Fail("per-publisher-order", "subscriber s%03d of %d saw %v, the publisher published e1, e2, e3 in that order", i, n, seen[i])
					}
				}
			}
			x.Outcome(fmt.Sprintf("bad=%d", bad))
			vrt.Freeze()
			w.Sys.Stop()
			vrt.QuiesceNoTimers()
		},
	}
}

func build(tier string) []*vexp.Scenario {
	bounds := []int{0, 1}
	if tier == "thorough" {
		bounds = []int{0, 1, 2, 3}
	}
	var out []*vexp.Scenario
	for _, k := range []string{"order", "twice", "unsub", "unsuball", "die", "die-reactive", "own-killed", "zombie-die", "restart"} {
		for _, n := range []int{1, 2} {
			out = append(out, scenario(params{kind: k, pubs: n}, bounds))
		}
	}
	for _, bp := range []bool{false, true} {
		out = append(out, dupSpawnScenario(bp, []int{0, 1}))
	}
	for _, n := range []int{1, 63, 64, 65} {
		out = append(out, fanoutScenario(n, []int{0, 1}))
	}
	out = append(out, fanoutScenario(130, []int{0}))
	for _, win := range []string{"none", "self", "other"} {
		for _, rs := range []bool{false, true} {
			out = append(out, prelaunchScenario(win, rs, "name-taken", []int{0, 1, 2}))
		}
	}
	out = append(out, prelaunchScenario("none", false, "prelaunch-fails", []int{0, 1}))
	out = append(out, prelaunchScenario("none", false, "prelaunch-fails-then-spawned", []int{0, 1}))
	if tier == "thorough" {
		out = append(out, vexp.Split(8, func() *vexp.Scenario { return fanoutScenario(130, []int{0, 1}) })...)
	}
	return out
}

func main() { vexp.Main("C19", "c19sys", build) }
