// Harness c05: lifecycle order per incarnation. Real actor.System, coarse (between-message)
// scheduling, scripted recording actors in the tree / -> p -> {a -> g, b}.
package main

import (
	"errors"
	"fmt"

	"github.com/kercylan98/vivid"
	"github.com/kercylan98/vivid/internal/actor"
	"github.com/kercylan98/vivid/internal/verif/vexp"
	"github.com/kercylan98/vivid/internal/verif/vrt"
	"github.com/kercylan98/vivid/internal/verif/vsys"
)

type params struct {
	site      string // none | launch | msg | childKilled | deep (the grandchild g fails on a message, a escalates, p decides)
	cause     string // panic | failed
	decision  vivid.SupervisionDecision
	provider  bool
	become    bool
	kill      string // none | out-now | out-poison | self-poison | parent-now
	prelaunch string // none | spawn | restart
	twice     bool   // fail in the first two incarnations
	hookFail  string // none | prerestart | restarted
	slowDec   bool   // the supervisor's decision maker answers only after the failed child has been killed by somebody else
	unbecome  bool   // after the failure has been dealt with, the actor does Become, handles a message, UnBecome, handles another
	combo     bool   // the actor is built with vivid.NewComplexCombinationActor: [a Prelaunch part that carries the scripted failure, the scripted actor, a Prelaunch part that always succeeds]
	lateSpawn bool   // an outside goroutine spawns a top-level actor while the system is being stopped
	watch     string // none | b-dies-first: b watches a, b is killed, then a is killed (a's notification finds a dead watcher)
	exposes   bool   // the actor's OnPrelaunch subscribes to an event type and publishes an event of it: its reference is in other hands before the spawn is decided
}

type exposed struct{}

func (p params) name() string {
	return fmt.Sprintf("site=%s/%s/dec=%s/prov=%v/become=%v/kill=%s/prelaunch=%s/twice=%v/hook=%s", p.site, p.cause, p.decision.String(), p.provider, p.become, p.kill, p.prelaunch, p.twice, p.hookFail) + map[bool]string{true: "/become-unbecome-afterwards", false: ""}[p.unbecome] + map[bool]string{true: "/combination-actor", false: ""}[p.combo] + map[bool]string{true: "/late-spawn", false: ""}[p.lateSpawn] + map[bool]string{true: "/slow-decision", false: ""}[p.slowDec] + map[bool]string{true: "/watch=" + p.watch, false: ""}[p.watch != "" && p.watch != "none"] + map[bool]string{true: "/prelaunch-exposes-ref", false: ""}[p.exposes]
}

func fail(ctx vivid.ActorContext, cause string) {
	if cause == "failed" {
		ctx.Failed("scripted failure")
		return
	}
	panic("scripted panic")
}

func scenario(p params, bounds []int) *vexp.Scenario {
	return &vexp.Scenario{
		Name:         p.name(),
		Family:       "site=" + p.site,
		Cfg:          vsys.Coarse(60000),
		Bounds:       bounds,
		Setup:        func(x *vexp.X) { vsys.CoarseSetup() },
		AllowBlocked: []string{vsys.AllowGuardian},
		Body: func(x *vexp.X) {
			w := vsys.NewWorld(x)
			w.Quiet = true
			w.Start()
			launches := 0
			g := &vsys.Script{Name: "g"}
			a := &vsys.Script{Name: "a", Children: []*vsys.Script{g}, UseProvider: p.provider}
			if p.site == "deep" {
				gBooms := 0
				g.OnMsg = func(act *vsys.Act, ctx vivid.ActorContext, m vsys.Msg) {
					if m.ID == "boom" {
						gBooms++
						if gBooms == 1 {
							fail(ctx, p.cause)
						}
					}
				}
				a.Strategy = w.Decider("/p/a", false, vivid.SupervisionDecisionEscalate)
			}
			a.Launch = func(act *vsys.Act, ctx vivid.ActorContext) {
				launches++
				if p.site == "launch" && (launches == 1 || (p.twice && launches == 2)) {
					fail(ctx, p.cause)
				}
			}
			booms := 0
			a.OnMsg = func(act *vsys.Act, ctx vivid.ActorContext, m vsys.Msg) {
				switch m.ID {
				case "become":
					ctx.Become(act.Alt("alt"))
				case "unbecome":
					ctx.UnBecome()
				case "boom":
					booms++
					if booms == 1 || p.twice {
						fail(ctx, p.cause)
					}
				case "die":
					ctx.Kill(ctx.Ref(), true, "self")
				}
			}
			gDeaths := 0
			a.OnKilled = func(act *vsys.Act, ctx vivid.ActorContext, m *vivid.OnKilled) {
				if p.site == "childKilled" && m.Ref.GetPath() == "/p/a/g" {
					gDeaths++
					if gDeaths == 1 {
						fail(ctx, p.cause)
					}
				}
			}
			if p.exposes {
				a.PrelaunchCtx = func(act *vsys.Act, ctx vivid.PrelaunchContext, n int) {
					if n == 0 {
						ctx.EventStream().Subscribe(ctx, exposed{})
						ctx.EventStream().Publish(ctx, exposed{})
					}
				}
			}
			if p.prelaunch != "none" && !p.combo {
				a.Prelaunch = func(n int) error {
					if (p.prelaunch == "spawn" && n == 0) || (p.prelaunch == "restart" && n == 1) {
						return errors.New("scripted prelaunch failure")
					}
					return nil
				}
			}
			if p.combo {
				calls := 0
				a.Wrap = func(inner vivid.Actor) vivid.Actor {
					failing := vivid.NewPrelaunchActor(func(vivid.PrelaunchContext) error {
						n := calls
						calls++
						if (p.prelaunch == "spawn" && n == 0) || (p.prelaunch == "restart" && n == 1) {
							return errors.New("scripted prelaunch failure of the first part")
						}
						return nil
					})
					fine := vivid.NewPrelaunchActor(func(vivid.PrelaunchContext) error { return nil })
					return vivid.NewComplexCombinationActor(failing, inner, fine)
				}
			}
			switch p.hookFail {
			case "prerestart":
				a.PreRestart = func(*vsys.Act) error { return errors.New("scripted pre-restart failure") }
			case "restarted":
				a.Restarted = func(*vsys.Act) error { panic("scripted restarted panic") }
			}
			b := &vsys.Script{Name: "b"}
			if p.watch == "b-dies-first" {
				b.Launch = func(act *vsys.Act, ctx vivid.ActorContext) { ctx.Watch(w.Ref("/p/a")) }
			}
			if p.slowDec {
				w.BeforeDecision = func(supervisor, child string) {
					if child != "/p/a" {
						return
					}
					vrt.Block(vrt.KYield, 0, "slow decision maker", func() bool {
						for _, pb := range w.Pubs {
							if pb.Type == "ActorKilledEvent" && pb.Ref == "/p/a" {
								return true
							}
						}
						return false
					})
				}
			}
			par := &vsys.Script{Name: "p", Children: []*vsys.Script{a, b}}
			par.Strategy = w.Decider("/p", false, p.decision)
			par.OnMsg = func(act *vsys.Act, ctx vivid.ActorContext, m vsys.Msg) {
				if m.ID == "kill-a" {
					ctx.Kill(act.ChildRefs["a"], false, "parent")
				}
			}
			var spawnErrSeen bool
			if p.prelaunch == "spawn" {
				// the parent spawns a in OnLaunch: record that ActorOf returned an error
				par.Children = []*vsys.Script{b}
				par.Launch = func(act *vsys.Act, ctx vivid.ActorContext) {
					_, err := act.SpawnChild(ctx, a)
					spawnErrSeen = err != nil
				}
			}
			if _, err := w.SpawnRoot(par); err != nil {
				x.Fail("harness", "spawn p: %v", err)
				return
			}
			ra := w.Ref("/p/a")
			tell := func(id string) { w.Sys.Tell(ra, vsys.Msg{ID: id}); vrt.Yield() }
			vrt.Quiesce() // the tree exists (and a launch-site failure has been handled) before the driver sends
			tell("m1")
			if p.become {
				tell("become")
				tell("m1b")
			}
			if p.site == "msg" {
				tell("boom")
				if p.twice {
					tell("boom")
				}
			}
			if p.site == "deep" {
				w.Sys.Tell(w.Ref("/p/a/g"), vsys.Msg{ID: "g1"})
				w.Sys.Tell(w.Ref("/p/a/g"), vsys.Msg{ID: "boom"})
				w.Sys.Tell(w.Ref("/p/a/g"), vsys.Msg{ID: "g2"})
				vrt.Yield()
			}
			tell("m2")
			if p.site == "childKilled" {
				w.Sys.Kill(w.Ref("/p/a/g"), false, "driver")
				vrt.Yield()
			}
			if p.watch == "b-dies-first" {
				w.Sys.Kill(w.Ref("/p/b"), false, "driver")
				vrt.Quiesce()
			}
			switch p.kill {
			case "out-now":
				w.Sys.Kill(ra, false, "driver")
			case "out-poison":
				w.Sys.Kill(ra, true, "driver")
			case "self-poison":
				tell("die")
			case "parent-now":
				w.Sys.Tell(w.Ref("/p"), vsys.Msg{ID: "kill-a"})
			}
			vrt.Yield()
			tell("m3")
			vrt.Quiesce()
			if p.unbecome {
				// in the incarnation that runs now (after the restart, if there was one): switch behaviour and back
				tell("become")
				tell("m3b")
				tell("unbecome")
			}
			tell("m4")
			vrt.Quiesce()
			if p.prelaunch == "spawn" {
				if !spawnErrSeen {
					x.Fail("prelaunch-error-returned", "Prelaunch failed but ActorOf returned no error")
				}
				if n := len(w.EntriesOf("/p/a")); n > 0 {
					x.Fail("prelaunch-failure-silent", "Prelaunch failed at spawn but /p/a's behaviour received %d messages", n)
				}
				if _, err := w.Sys.FindActor("localhost/p/a"); err == nil {
					x.Fail("prelaunch-failure-silent", "Prelaunch failed at spawn but /p/a is registered")
				}
			}
			lateRefused := false
			if p.lateSpawn {
				vrt.Go("late-spawner", func() {
					if _, err := w.SpawnRoot(&vsys.Script{Name: "late"}); err != nil {
						x.Logf("late ActorOf: %v", err)
						lateRefused = true
					}
				})
			}
			if err := w.Sys.Stop(); err != nil {
				x.Logf("stop: %v", err)
			}
			vrt.Quiesce()
			if p.lateSpawn && lateRefused {
				// ActorOf returned an error: the actor never receives anything - and cannot, nothing is left under its name
				if n := len(w.EntriesOf("/late")); n > 0 {
					x.Fail("prelaunch-failure-silent", "ActorOf(late) returned an error but /late's behaviour received %d messages", n)
				}
				for _, r := range actor.VerifSys(w.Sys).Registry {
					if r == "/late" {
						x.Fail("prelaunch-failure-silent", "ActorOf(late) returned an error but an actor is registered under /late (it would receive whatever is sent to that path)")
					}
				}
			}
			vsys.CheckLifecycle(w)
			if p.decision != vivid.SupervisionDecisionEscalate {
				// the supervisor /p is one-for-one and the failure is a's (or is escalated by a): a restart concerns /p/a and nobody else
				for path, incs := range w.Incs {
					for _, inc := range incs {
						if inc.Restarted && path != "/p/a" {
							x.Fail("restart-only-for-its-target", "%s was restarted (a new incarnation under the same context began with the restart) although the decision %s of /p concerned /p/a only", path, p.decision.String())
						}
					}
				}
			}
			if len(w.PubsOf("ActorRestartedEvent")) > 0 {
				x.Tag("restarted")
			}
			if len(w.Incs["/p/a"]) > 1 {
				x.Tag("second-incarnation-observed")
			}
			x.Outcome(w.Summary())
			for _, e := range w.Entries {
				x.Logf("see %s", e.String())
			}
		},
	}
}

var decisions = []vivid.SupervisionDecision{
	vivid.SupervisionDecisionRestart, vivid.SupervisionDecisionGracefulRestart, vivid.SupervisionDecisionStop,
	vivid.SupervisionDecisionGracefulStop, vivid.SupervisionDecisionResume, vivid.SupervisionDecisionEscalate,
}

func build(tier string) []*vexp.Scenario {
	bounds := []int{0, 1}
	if tier == "thorough" {
		bounds = []int{0, 1, 2, 3}
	}
	var out []*vexp.Scenario
	add := func(p params) {
		out = append(out, scenario(p, bounds))
		// hybrid variant: preemption at the lock / atomic operations of packages actor and mailbox
		if p.cause == "panic" && !p.provider && p.hookFail == "none" && p.prelaunch == "none" {
			out = append(out, vexp.Fine(scenario(p, []int{0, 1}), "vivid/internal/actor.", "vivid/internal/mailbox."))
		}
	}
	base := params{site: "none", cause: "panic", decision: vivid.SupervisionDecisionRestart, kill: "none", prelaunch: "none", hookFail: "none"}
	// failure matrix
	for _, site := range []string{"launch", "msg", "childKilled"} {
		for _, cause := range []string{"panic", "failed"} {
			for _, d := range decisions {
				for _, prov := range []bool{false, true} {
					p := base
					p.site, p.cause, p.decision, p.provider = site, cause, d, prov
					add(p)
				}
			}
		}
	}
	// the failure of a grandchild escalated by its parent: the decision applies to the parent, the grandchild just dies with it
	for _, cause := range []string{"panic", "failed"} {
		for _, d := range decisions {
			for _, prov := range []bool{false, true} {
				p := base
				p.site, p.cause, p.decision, p.provider = "deep", cause, d, prov
				add(p)
			}
		}
	}
	// Become / UnBecome in the incarnation that follows the failure
	for _, d := range []vivid.SupervisionDecision{vivid.SupervisionDecisionRestart, vivid.SupervisionDecisionGracefulRestart, vivid.SupervisionDecisionResume} {
		for _, prov := range []bool{false, true} {
			for _, tw := range []bool{false, true} {
				p := base
				p.site, p.decision, p.unbecome, p.provider, p.twice = "msg", d, true, prov, tw
				add(p)
			}
		}
	}
	// Become before failing (restart decisions)
	for _, d := range []vivid.SupervisionDecision{vivid.SupervisionDecisionRestart, vivid.SupervisionDecisionGracefulRestart, vivid.SupervisionDecisionResume} {
		for _, prov := range []bool{false, true} {
			p := base
			p.site, p.decision, p.become, p.provider = "msg", d, true, prov
			add(p)
		}
	}
	// kills without failure and kills racing a failure
	for _, k := range []string{"out-now", "out-poison", "self-poison", "parent-now"} {
		p := base
		p.kill = k
		add(p)
		for _, d := range []vivid.SupervisionDecision{vivid.SupervisionDecisionRestart, vivid.SupervisionDecisionGracefulRestart, vivid.SupervisionDecisionStop} {
			q := base
			q.site, q.decision, q.kill = "msg", d, k
			// a kill landing inside the restart window needs two deviations (found at bound 2: fix 6ecde3c)
			out = append(out, scenario(q, []int{0, 1, 2}))
		}
	}
	// the decision arrives after the failed child has already been killed by somebody else
	for _, d := range decisions {
		for _, cause := range []string{"panic", "failed"} {
			q := base
			q.site, q.cause, q.decision, q.kill, q.slowDec = "msg", cause, d, "out-now", true
			add(q)
		}
	}
	// a watcher that died before the actor it watches
	for _, k := range []string{"out-now", "out-poison", "self-poison", "parent-now"} {
		q := base
		q.kill, q.watch = k, "b-dies-first"
		add(q)
	}
	// a spawn racing the kill of its parent (the root, through System.Stop)
	{
		q := base
		q.lateSpawn = true
		out = append(out, scenario(q, []int{0, 1, 2}))
		out = append(out, vexp.Split(4, func() *vexp.Scenario {
			return vexp.Fine(scenario(q, []int{0, 1, 2}), "vivid/internal/actor.", "vivid/internal/mailbox.")
		})...)
	}
	// the same prelaunch failures with the actor assembled from parts (public helper API): a failure of the first part counts
	for _, pl := range []string{"spawn", "restart"} {
		for _, d := range []vivid.SupervisionDecision{vivid.SupervisionDecisionRestart, vivid.SupervisionDecisionGracefulRestart} {
			q := base
			q.site, q.decision, q.prelaunch, q.combo = "msg", d, pl, true
			if pl == "spawn" {
				q.site = "none"
			}
			out = append(out, scenario(q, bounds))
		}
	}
	// prelaunch failures
	p := base
	p.prelaunch = "spawn"
	add(p)
	// ... and an OnPrelaunch that hands the actor's reference out (subscribes and publishes) before the spawn is decided: a refused
	// actor still receives nothing, an accepted one still sees OnLaunch first
	p.exposes = true
	add(p)
	p.prelaunch = "none"
	add(p)
	for _, d := range []vivid.SupervisionDecision{vivid.SupervisionDecisionRestart, vivid.SupervisionDecisionStop} {
		q := base
		q.site, q.decision, q.exposes = "msg", d, true
		add(q)
	}
	for _, d := range []vivid.SupervisionDecision{vivid.SupervisionDecisionRestart, vivid.SupervisionDecisionGracefulRestart} {
		for _, prov := range []bool{false, true} {
			q := base
			q.site, q.decision, q.prelaunch, q.provider = "msg", d, "restart", prov
			add(q)
		}
	}
	// repeated restarts
	for _, site := range []string{"launch", "msg"} {
		for _, d := range []vivid.SupervisionDecision{vivid.SupervisionDecisionRestart, vivid.SupervisionDecisionGracefulRestart} {
			q := base
			q.site, q.decision, q.twice = site, d, true
			add(q)
		}
	}
	// restart hooks failing
	for _, h := range []string{"prerestart", "restarted"} {
		q := base
		q.site, q.hookFail = "msg", h
		add(q)
	}
	return out
}

func main() { vexp.Main("C05", "c05", build) }
