// Harness c19es: the real event stream (of a started System) under the fine-grained scheduler.
// Subscribers are references whose mailbox cache points at a recording mailbox, so Publish's
// real tell path is observed without subscriber actors. Oracle: linearizability (brute force)
// against set semantics, exactly-once delivery, tables empty for unsubscribed paths.
package main

import (
	"fmt"
	"reflect"
	"sort"
	"strings"

	"github.com/kercylan98/vivid"
	"github.com/kercylan98/vivid/internal/actor"
	"github.com/kercylan98/vivid/internal/verif/vexp"
	"github.com/kercylan98/vivid/internal/verif/vrt"
	"github.com/kercylan98/vivid/internal/verif/vsys"
	"github.com/kercylan98/vivid/pkg/log"
)

type evA struct{ ID string }
type evB struct{ ID string }

// mkC returns an event of a THIRD type (letter C) that prints exactly like evA ("main.evA") but is a different type: a type
// declared inside a function. Event types are told apart by identity, not by their printed names.
func mkC(id string) any {
	type evA struct{ ID string }
	return evA{ID: id}
}

type recMailbox struct {
	name string
	got  *[]string // "sub<-eventID"
}

func (m *recMailbox) Enqueue(e vivid.Envelop) {
	switch v := e.Message().(type) {
	case evA:
		*m.got = append(*m.got, m.name+"<-"+v.ID)
	case evB:
		*m.got = append(*m.got, m.name+"<-"+v.ID)
	default:
		if rv := reflect.ValueOf(e.Message()); rv.Kind() == reflect.Struct && rv.NumField() == 1 && rv.Type() == reflect.TypeOf(mkC("")) {
			*m.got = append(*m.got, m.name+"<-"+rv.Field(0).String())
		}
	}
}
func (m *recMailbox) Pause()         {}
func (m *recMailbox) Resume()        {}
func (m *recMailbox) IsPaused() bool { return false }

type subCtx struct{ ref *actor.Ref }

func (s *subCtx) Ref() vivid.ActorRef { return s.ref }
func (s *subCtx) Logger() log.Logger  { return vsys.Silent }

// operation tokens: "S1A" subscribe sub1 to A, "U2B" unsubscribe sub2 from B, "X1" UnsubscribeAll sub1,
// "PA" publish an evA, "PB" publish an evB
type opRec struct {
	tok     string
	thread  int
	call    int
	ret     int
	eventID string
}

func apply(state map[string]bool, tok string) {
	switch tok[0] {
	case 'S':
		state[tok[1:]] = true
	case 'U':
		delete(state, tok[1:])
	case 'X':
		for k := range state {
			if k[0] == tok[1] {
				delete(state, k)
			}
		}
	}
}

func scenario(threads [][]string, pre []string, bounds []int) *vexp.Scenario {
	var names []string
	for _, t := range threads {
		names = append(names, strings.Join(t, "."))
	}
	name := strings.Join(names, "|")
	if len(pre) > 0 {
		name = "pre=" + strings.Join(pre, ".") + "/" + name
	}
	return &vexp.Scenario{
		Name:       name,
		Family:     fmt.Sprintf("%dthreads", len(threads)),
		Cfg:        vrt.Config{Cost: vrt.CostDelay, StepBudget: 40000},
		Bounds:     bounds,
		CheckRaces: true,
		Body: func(x *vexp.X) {
			w := vsys.NewWorld(x)
			w.Quiet = true
			w.Start()
			es := w.Sys.EventStream()
			var got []string
			subs := map[byte]*subCtx{
				'1': {actor.VerifRefWithMailbox("/sub1", &recMailbox{name: "1", got: &got})},
				'2': {actor.VerifRefWithMailbox("/sub2", &recMailbox{name: "2", got: &got})},
				'3': {actor.VerifRefWithMailbox("/sub3", &recMailbox{name: "3", got: &got})},
			}
			pubCtx := &subCtx{actor.VerifRefWithMailbox("/pub", &recMailbox{name: "p", got: &got})}
			clock := 0
			evn := 0
			var ops []*opRec
			do := func(thread int, tok string) {
				o := &opRec{tok: tok, thread: thread}
				clock++
				o.call = clock
				ops = append(ops, o)
				switch tok[0] {
				case 'S':
					switch tok[2] {
					case 'A':
						es.Subscribe(subs[tok[1]], evA{})
					case 'B':
						es.Subscribe(subs[tok[1]], evB{})
					case 'C':
						es.Subscribe(subs[tok[1]], mkC(""))
					}
				case 'U':
					switch tok[2] {
					case 'A':
						es.Unsubscribe(subs[tok[1]], evA{})
					case 'B':
						es.Unsubscribe(subs[tok[1]], evB{})
					case 'C':
						es.Unsubscribe(subs[tok[1]], mkC(""))
					}
				case 'X':
					es.UnsubscribeAll(subs[tok[1]])
				case 'P':
					evn++
					o.eventID = fmt.Sprintf("%c%d", tok[1], evn)
					switch tok[1] {
					case 'A':
						es.Publish(pubCtx, evA{ID: o.eventID})
					case 'B':
						es.Publish(pubCtx, evB{ID: o.eventID})
					case 'C':
						es.Publish(pubCtx, mkC(o.eventID))
					}
				}
				clock++
				o.ret = clock
			}
			for _, tok := range pre {
				do(9, tok)
			}
			for ti, body := range threads {
				ti, body := ti, body
				vrt.Go(fmt.Sprintf("t%d", ti), func() {
					for _, tok := range body {
						do(ti, tok)
					}
				})
			}
			vrt.QuiesceNoTimers()
			// observed deliveries per event
			deliv := map[string][]string{}
			for _, g := range got {
				parts := strings.SplitN(g, "<-", 2)
				deliv[parts[1]] = append(deliv[parts[1]], parts[0])
			}
			for ev, ds := range deliv {
				sort.Strings(ds)
				for i := 1; i < len(ds); i++ {
					if ds[i] == ds[i-1] {
						x.Fail("delivered-once", "event %s was delivered %d times to subscriber %s", ev, 2, ds[i])
					}
				}
			}
			// brute-force linearizability
			n := len(ops)
			used := make([]bool, n)
			var lin func(done int, state map[string]bool) bool
			lin = func(done int, state map[string]bool) bool {
				if done == n {
					return true
				}
				for i, o := range ops {
					if used[i] {
						continue
					}
					ok := true
					for j, p := range ops {
						if !used[j] && j != i && p.ret < o.call {
							ok = false
							break
						}
					}
					if !ok {
						continue
					}
					ns := map[string]bool{}
					for k := range state {
						ns[k] = true
					}
					if o.tok[0] == 'P' {
						var want []string
						for k := range state {
							if k[1] == o.tok[1] {
								want = append(want, string(k[0]))
							}
						}
						sort.Strings(want)
						if strings.Join(want, ",") != strings.Join(deliv[o.eventID], ",") {
							continue
						}
					} else {
						apply(ns, o.tok)
					}
					used[i] = true
					if lin(done+1, ns) {
						return true
					}
					used[i] = false
				}
				return false
			}
			if !lin(0, map[string]bool{}) {
				var desc []string
				for _, o := range ops {
					d := fmt.Sprintf("t%d:%s[%d,%d]", o.thread, o.tok, o.call, o.ret)
					if o.eventID != "" {
						d += "->" + strings.Join(deliv[o.eventID], "+")
					}
					desc = append(desc, d)
				}
				x.Fail("linearizable-set-semantics", "no order of the calls consistent with real time explains the deliveries: %v", desc)
			}
			// final tables: agree with the sequential effect of some linearization = for non-racing ops; at
			// least: a subscriber with no subscription left holds no entry, and both tables agree
			sysd := actor.VerifSys(w.Sys)
			fwd := map[string]bool{}
			for t, ss := range sysd.Subscribers {
				for _, s := range ss {
					fwd[s+"|"+t] = true
				}
			}
			rev := map[string]bool{}
			for s, ts := range sysd.SubscriberTypes {
				if len(ts) == 0 {
					x.Fail("tables-clean", "subscriber %s has an empty entry left in the reverse table", s)
				}
				for _, t := range ts {
					rev[s+"|"+t] = true
				}
			}
			for k := range fwd {
				if !rev[k] {
					x.Fail("tables-agree", "forward table has %s, reverse table does not", k)
				}
			}
			for k := range rev {
				if !fwd[k] {
					x.Fail("tables-agree", "reverse table has %s, forward table does not", k)
				}
			}
			sort.Strings(got)
			x.Outcome(strings.Join(got, " "))
			x.Logf("deliveries %v", got)
			w.Sys.Stop()
			vrt.QuiesceNoTimers()
		},
	}
}

func build(tier string) []*vexp.Scenario {
	b2, b3 := []int{0, 1, 2}, []int{0, 1, 2}
	if tier == "thorough" {
		b2, b3 = []int{0, 1, 2, 3, 4}, []int{0, 1, 2, 3}
	}
	var out []*vexp.Scenario
	two := [][][]string{
		{{"S1A"}, {"PA"}}, {{"S1A", "U1A"}, {"PA"}}, {{"S1A"}, {"S1A"}}, {{"S1A", "S1A"}, {"PA"}},
		{{"S1A", "S1B"}, {"X1"}}, {{"S1A"}, {"S2A", "PA"}}, {{"PA", "PA"}, {"S1A"}}, {{"S1A", "PB"}, {"S2B", "PA"}},
		{{"U1A"}, {"S1A", "PA"}}, {{"X1"}, {"S1B", "PB"}},
	}
	for _, t := range two {
		out = append(out, scenario(t, nil, b2))
	}
	pres := [][][]string{
		{{"U1A"}, {"PA"}}, {{"X1"}, {"PA", "PB"}}, {{"U1A"}, {"X1"}}, {{"X1"}, {"X2"}}, {{"U1A", "S1A"}, {"PA"}}, {{"X1"}, {"U1B", "PB"}},
	}
	for _, t := range pres {
		out = append(out, scenario(t, []string{"S1A", "S1B", "S2A"}, b2))
	}
	// Unsubscribe of a type the subscriber does not hold, while that type has other subscribers
	for _, t := range [][][]string{{{"U1B", "X1", "PA"}}, {{"U1B", "X1"}, {"PA"}}, {{"U1B"}, {"X1", "PA", "PB"}}, {{"U1B", "U1B", "X1"}, {"PA"}}} {
		out = append(out, scenario(t, []string{"S1A", "S2B"}, b2))
	}
	// a Subscribe racing the departure (UnsubscribeAll) of the last other subscriber of the same type
	for _, pre := range [][]string{{"S2A"}, {"S2A", "S2B"}} {
		for _, t := range [][][]string{{{"S1A", "PA"}, {"X2"}}, {{"S1A"}, {"X2", "PA"}}, {{"S1A", "PA"}, {"X2", "PA"}}} {
			out = append(out, scenario(t, pre, b2))
		}
	}
	// overlapping publications of two types whose subscriber sets differ (and overlap), each with more than one subscriber:
	// whatever a Publish collects its targets in must be its own until its fan-out is finished
	for _, t := range [][][]string{{{"PA"}, {"PB"}}, {{"PA", "PA"}, {"PB"}}, {{"PA", "PB"}, {"PB", "PA"}}, {{"PA"}, {"PB"}, {"S3A"}}, {{"PA"}, {"PB"}, {"X1"}}} {
		b := b2
		if len(t) == 3 {
			b = b3
		}
		out = append(out, scenario(t, []string{"S1A", "S2A", "S1B", "S3B"}, b))
	}
	// two event types with the same printed name (A is main.evA, C a function-local type that also prints main.evA)
	for _, t := range [][][]string{{{"PA", "PC"}}, {{"S1C", "U1C", "PA", "PC"}}, {{"PA"}, {"PC"}}, {{"U1C"}, {"PA", "PC"}}, {{"X2", "PA", "PC"}}} {
		out = append(out, scenario(t, []string{"S1A", "S2C"}, b2))
	}
	three := [][][]string{
		{{"S1A"}, {"S2A"}, {"PA"}}, {{"S1A"}, {"U1A"}, {"PA"}}, {{"S1A", "S1B"}, {"X1"}, {"PB"}}, {{"PA"}, {"PA"}, {"S1A"}},
	}
	for _, t := range three {
		out = append(out, scenario(t, nil, b3))
		out = append(out, scenario(t, []string{"S1A", "S2B"}, b3))
	}
	return out
}

func main() { vexp.Main("C19", "c19es", build) }
