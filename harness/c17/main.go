// Harness c17: cluster view merge is order-insensitive and never regresses a member.
// Family "grid": every view over two node ids whose members range over a grid of incarnations
// (generation x logical clock), statuses and timestamps, x epoch x view timestamp x version
// vector; all ordered pairs under every merge option, triples of a subset.
// Family "reachable": views produced by the real operations (join, re-join with generation
// bump, status change, version increment, removal, snapshot, merge) breadth-first.
package main

import (
	"fmt"
	"sort"
	"strings"
	"time"

	"github.com/kercylan98/vivid/internal/cluster"
	"github.com/kercylan98/vivid/internal/verif/venum"
	"github.com/kercylan98/vivid/internal/verif/vtime"
)

type inc struct {
	gen int
	lc  uint64
}

func (a inc) less(b inc) bool {
	if a.gen != b.gen {
		return a.gen < b.gen
	}
	return a.lc < b.lc
}

func proj(v *cluster.ClusterView) map[string]inc {
	out := map[string]inc{}
	for id, m := range v.Members {
		if m != nil {
			out[id] = inc{m.Generation, m.LogicalClock}
		}
	}
	return out
}

func projStr(p map[string]inc) string {
	var ks []string
	for k := range p {
		ks = append(ks, k)
	}
	sort.Strings(ks)
	var b strings.Builder
	for _, k := range ks {
		fmt.Fprintf(&b, "%s=(g%d,c%d) ", k, p[k].gen, p[k].lc)
	}
	return b.String()
}

func describe(v *cluster.ClusterView) string {
	var ks []string
	for k := range v.Members {
		ks = append(ks, k)
	}
	sort.Strings(ks)
	var b strings.Builder
	for _, k := range ks {
		m := v.Members[k]
		fmt.Fprintf(&b, "%s=(g%d,c%d,%s,ts%d) ", k, m.Generation, m.LogicalClock, m.Status, m.Timestamp-base())
	}
	fmt.Fprintf(&b, "epoch=%d ts=%d vv=%s", v.Epoch, v.Timestamp-base(), v.VersionVector.String())
	return b.String()
}

func base() int64 { return vtime.Now().UnixNano() }

func deepSnap(v *cluster.ClusterView) string {
	var ks []string
	for k := range v.Members {
		ks = append(ks, k)
	}
	sort.Strings(ks)
	var b strings.Builder
	for _, k := range ks {
		m := v.Members[k]
		fmt.Fprintf(&b, "%s=%+v|", k, *m)
	}
	fmt.Fprintf(&b, "e%d t%d vv%v pv%d h%d u%d q%d", v.Epoch, v.Timestamp, v.VersionVector.SortedEntries(), v.ProtocolVersion, v.HealthyCount, v.UnhealthyCount, v.QuorumSize)
	return b.String()
}

func mkMember(id string, gen int, lc uint64, st cluster.MemberStatus, ts int64) *cluster.NodeState {
	n := cluster.VerifNewNodeState(id, "c", id+":1")
	n.Generation, n.LogicalClock, n.Status, n.Timestamp = gen, lc, st, base()+ts
	n.Labels["k"] = "v"
	return n
}

var fullGrid bool

func gridViews() []*cluster.ClusterView {
	type mopt struct {
		present bool
		gen     int
		lc      uint64
		st      cluster.MemberStatus
		ts      int64
	}
	var n1, n2 []mopt
	n1 = append(n1, mopt{})
	n2 = append(n2, mopt{})
	for gen := 1; gen <= 2; gen++ {
		for lc := uint64(1); lc <= 3; lc++ {
			sts := []cluster.MemberStatus{cluster.MemberStatusUp, cluster.MemberStatusSuspect}
			tss := []int64{100, 200}
			if !fullGrid {
				// quick: status and timestamp vary together (2 instead of 4 variants per incarnation)
				n1 = append(n1, mopt{true, gen, lc, sts[0], tss[0]}, mopt{true, gen, lc, sts[1], tss[1]})
			} else {
				for _, st := range sts {
					for _, ts := range tss {
						n1 = append(n1, mopt{true, gen, lc, st, ts})
					}
				}
			}
			n2 = append(n2, mopt{true, gen, lc, cluster.MemberStatusUp, 100})
		}
	}
	vvs := []map[string]uint64{{}, {"n1": 1}, {"n2": 1}}
	var out []*cluster.ClusterView
	for _, a := range n1 {
		for _, b := range n2 {
			for _, epoch := range []int64{0, 2} {
				for _, vts := range []int64{0, -int64(10 * time.Second)} {
					for _, vv := range vvs {
						// version-vector entries only for present members: recomputeCounts prunes the
						// others on every membership change, so such views are not reachable
						if (vv["n1"] > 0 && !a.present) || (vv["n2"] > 0 && !b.present) {
							continue
						}
						v := cluster.VerifNewView()
						v.ViewID = "v"
						v.Epoch = epoch
						v.Timestamp = base() + vts
						if a.present {
							v.Members["n1"] = mkMember("n1", a.gen, a.lc, a.st, a.ts)
						}
						if b.present {
							v.Members["n2"] = mkMember("n2", b.gen, b.lc, b.st, b.ts)
						}
						v.VersionVector = cluster.VerifVV(vv, false)
						out = append(out, v)
					}
				}
			}
		}
	}
	return out
}

type laws struct {
	c    *venum.Ctx
	opts cluster.MergeOptions
	on   string
}

func (l *laws) in(vs ...*cluster.ClusterView) []string {
	out := []string{l.on}
	for _, v := range vs {
		out = append(out, describe(v))
	}
	return out
}

// pair checks every pairwise law for x <- y.
func (l *laws) pair(x, y *cluster.ClusterView) *cluster.ClusterView {
	c := l.c
	ySnap := deepSnap(y)
	r := x.Snapshot()
	px, py := proj(x), proj(y)
	vvBefore := r.VersionVector.Clone()
	changed := r.MergeFromWithOptions(y, l.opts)
	pr := proj(r)
	if deepSnap(y) != ySnap {
		c.Fail("argument-unchanged", l.in(x, y), "merging modified the view merged FROM")
	}
	if len(y.Members) == 0 {
		return r // documented no-op
	}
	for id, want := range px {
		got, ok := pr[id]
		if !ok {
			c.Fail("never-removes-member", l.in(x, y), "member %s disappeared in the merge", id)
		} else if got.less(want) {
			c.Fail("never-regresses-incarnation", l.in(x, y), "member %s went from (g%d,c%d) to (g%d,c%d)", id, want.gen, want.lc, got.gen, got.lc)
		}
	}
	for id := range pr {
		want, okx := px[id]
		o, oky := py[id]
		if oky && (!okx || want.less(o)) {
			want = o
		}
		if !okx && !oky {
			c.Fail("union-of-members", l.in(x, y), "member %s appeared from nowhere", id)
		}
		if pr[id] != want {
			c.Fail("newest-incarnation-wins", l.in(x, y), "member %s is (g%d,c%d) after the merge, the newest of both views is (g%d,c%d)", id, pr[id].gen, pr[id].lc, want.gen, want.lc)
		}
	}
	for id := range py {
		if _, ok := pr[id]; !ok {
			c.Fail("union-of-members", l.in(x, y), "member %s of the merged-from view is missing", id)
		}
	}
	if r.Epoch < x.Epoch {
		c.Fail("epoch-never-lowered", l.in(x, y), "epoch went from %d to %d", x.Epoch, r.Epoch)
	}
	for id := range pr {
		if r.VersionVector.Get(id) < x.VersionVector.Get(id) {
			c.Fail("version-entry-never-lowered", l.in(x, y), "version vector entry of member %s went from %d to %d", id, x.VersionVector.Get(id), r.VersionVector.Get(id))
		}
	}
	if !changed && (projStr(pr) != projStr(px) || !r.VersionVector.Equal(vvBefore)) {
		c.Fail("changed-flag", l.in(x, y), "membership or version vector changed (%s -> %s, vv %s -> %s) but the merge reported changed=false", projStr(px), projStr(pr), vvBefore.String(), r.VersionVector.String())
	}
	for id, m := range r.Members {
		if ym, ok := y.Members[id]; ok && ym == m {
			c.Fail("adopts-by-clone", l.in(x, y), "merged view shares the *NodeState of %s with the merged-from view", id)
		}
	}
	// idempotence
	r2 := r.Snapshot()
	r2.MergeFromWithOptions(y, l.opts)
	if projStr(proj(r2)) != projStr(pr) || !r2.VersionVector.Equal(r.VersionVector) {
		c.Fail("idempotent", l.in(x, y), "merging the same view a second time changed the result")
	}
	return r
}

func gridCheck(opts cluster.MergeOptions, name string) *venum.Check {
	return &venum.Check{Name: "grid/pairs/" + name, Family: "grid-pairs", Run: func(c *venum.Ctx) {
		V := gridViews()
		l := &laws{c: c, opts: opts, on: name}
		for i, x := range V {
			if c.Expired() {
				break
			}
			for j, y := range V {
				c.CaseN(1)
				r1 := l.pair(x, y)
				if j > i {
					r2 := y.Snapshot()
					r2.MergeFromWithOptions(x, opts)
					if len(x.Members) > 0 && len(y.Members) > 0 && projStr(proj(r1)) != projStr(proj(r2)) {
						c.Fail("commutative", l.in(x, y), "x<-y gives %s, y<-x gives %s", projStr(proj(r1)), projStr(proj(r2)))
					}
				}
			}
		}
		c.DistinctN(int64(len(V)) * int64(len(V)-1))
		c.Sample(map[string]any{"options": name, "x": describe(V[37]), "y": describe(V[911])})
	}}
}

func tripleCheck(strategy int) *venum.Check {
	name := fmt.Sprintf("strategy=%d", strategy)
	return &venum.Check{Name: "grid/triples/" + name, Family: "grid-triples", Run: func(c *venum.Ctx) {
		all := gridViews()
		var V []*cluster.ClusterView
		for i, v := range all {
			if len(v.Members) > 0 && i%(len(all)/110+1) == 0 {
				V = append(V, v)
			}
		}
		opts := cluster.MergeOptions{VersionConcurrentStrategy: strategy}
		l := &laws{c: c, opts: opts, on: name}
		for _, x := range V {
			if c.Expired() {
				break
			}
			for _, y := range V {
				xy := x.Snapshot()
				xy.MergeFromWithOptions(y, opts)
				for _, z := range V {
					c.CaseN(1)
					l1 := xy.Snapshot()
					l1.MergeFromWithOptions(z, opts)
					yz := y.Snapshot()
					yz.MergeFromWithOptions(z, opts)
					r1 := x.Snapshot()
					r1.MergeFromWithOptions(yz, opts)
					if projStr(proj(l1)) != projStr(proj(r1)) {
						c.Fail("associative", l.in(x, y, z), "(x<-y)<-z gives %s, x<-(y<-z) gives %s", projStr(proj(l1)), projStr(proj(r1)))
					}
					// any order of merging the three yields the same membership
					o3 := z.Snapshot()
					o3.MergeFromWithOptions(x, opts)
					o3.MergeFromWithOptions(y, opts)
					if projStr(proj(l1)) != projStr(proj(o3)) {
						c.Fail("order-insensitive", l.in(x, y, z), "(x<-y)<-z gives %s, (z<-x)<-y gives %s", projStr(proj(l1)), projStr(proj(o3)))
					}
				}
			}
		}
		n := int64(len(V))
		c.DistinctN(n * n * n)
		c.Sample(map[string]any{"subset_size": len(V), "x": describe(V[1]), "y": describe(V[5]), "z": describe(V[9])})
	}}
}

// ---- reachable views ---------------------------------------------------------------------------

func canon(v *cluster.ClusterView) string { return describe(v) }

func reachable(depth, cap int) []*cluster.ClusterView {
	ids := []string{"n1", "n2", "n3"}
	start := cluster.VerifNewView()
	start.ViewID = "v"
	seen := map[string]bool{canon(start): true}
	all := []*cluster.ClusterView{start}
	frontier := []*cluster.ClusterView{start}
	add := func(v *cluster.ClusterView, next *[]*cluster.ClusterView) {
		k := canon(v)
		if seen[k] || len(all) >= cap {
			return
		}
		seen[k] = true
		all = append(all, v)
		*next = append(*next, v)
	}
	for d := 0; d < depth; d++ {
		var next []*cluster.ClusterView
		vtime.Manual += int64(time.Second) // the clock ticks between steps
		for _, v := range frontier {
			for _, id := range ids {
				// join (as handleJoinRequest / tryJoinSeeds do)
				if _, ok := v.Members[id]; !ok {
					w := v.Snapshot()
					n := cluster.VerifNewNodeState(id, "c", id+":1")
					n.Status = cluster.MemberStatusUp
					w.AddMember(n)
					w.IncrementVersion(id)
					add(w, &next)
				} else {
					// re-join: generation bump exactly as tryJoinSeeds performs it
					w := v.Snapshot()
					prev := w.Members[id]
					n := cluster.VerifNewNodeState(id, "c", id+":1")
					n.Status = cluster.MemberStatusUp
					n.Generation = prev.Generation + 1
					n.Timestamp = vtime.Now().UnixNano()
					if prev.LogicalClock != 0 {
						n.LogicalClock = prev.LogicalClock + 1
					}
					w.AddMember(n)
					w.IncrementVersion(id)
					add(w, &next)
					// status change as failure detection performs it
					w2 := v.Snapshot()
					m := w2.Members[id]
					if m.Status == cluster.MemberStatusUp {
						m.Status = cluster.MemberStatusSuspect
					} else {
						m.Status = cluster.MemberStatusUp
					}
					w2.IncrementVersion(id)
					add(w2, &next)
					w3 := v.Snapshot()
					w3.RemoveMember(id)
					w3.Epoch++
					add(w3, &next)
				}
			}
			// merges with already reached views
			for i := 0; i < len(all) && i < 40; i++ {
				w := v.Snapshot()
				w.MergeFrom(all[i])
				add(w, &next)
			}
		}
		frontier = next
	}
	return all
}

func reachCheck(depth, cap int) *venum.Check {
	return &venum.Check{Name: fmt.Sprintf("reachable/depth=%d", depth), Family: "reachable", Run: func(c *venum.Ctx) {
		save := vtime.Manual
		V := reachable(depth, cap)
		c.Note("reachable views generated: %d (depth %d, cap %d)", len(V), depth, cap)
		for _, strategy := range []int{0, 1, 2} {
			for _, skew := range []time.Duration{0, time.Second, time.Hour} {
				opts := cluster.MergeOptions{VersionConcurrentStrategy: strategy, MaxClockSkew: skew}
				l := &laws{c: c, opts: opts, on: fmt.Sprintf("strategy=%d/skew=%v", strategy, skew)}
				for i, x := range V {
					if c.Expired() {
						break
					}
					for j, y := range V {
						c.CaseN(1)
						r1 := l.pair(x, y)
						if j > i && len(x.Members) > 0 && len(y.Members) > 0 {
							r2 := y.Snapshot()
							r2.MergeFromWithOptions(x, opts)
							if projStr(proj(r1)) != projStr(proj(r2)) {
								c.Fail("commutative", l.in(x, y), "x<-y gives %s, y<-x gives %s", projStr(proj(r1)), projStr(proj(r2)))
							}
						}
					}
				}
			}
		}
		// triples on a subset
		step := len(V)/40 + 1
		var S []*cluster.ClusterView
		for i := 0; i < len(V); i += step {
			if len(V[i].Members) > 0 {
				S = append(S, V[i])
			}
		}
		opts := cluster.MergeOptions{}
		l := &laws{c: c, opts: opts, on: "triples"}
		for _, x := range S {
			for _, y := range S {
				for _, z := range S {
					c.CaseN(1)
					a := x.Snapshot()
					a.MergeFrom(y)
					a.MergeFrom(z)
					yz := y.Snapshot()
					yz.MergeFrom(z)
					b := x.Snapshot()
					b.MergeFrom(yz)
					if projStr(proj(a)) != projStr(proj(b)) {
						c.Fail("associative", l.in(x, y, z), "(x<-y)<-z gives %s, x<-(y<-z) gives %s", projStr(proj(a)), projStr(proj(b)))
					}
				}
			}
		}
		n := int64(len(V))
		c.DistinctN(n*(n-1)*9 + int64(len(S)*len(S)*len(S)))
		c.Sample(map[string]any{"a_reachable_view": describe(V[len(V)/2]), "another": describe(V[len(V)-1])})
		vtime.Manual = save
	}}
}

func build(tier string) []*venum.Check {
	fullGrid = tier == "thorough"
	var out []*venum.Check
	for _, strategy := range []int{0, 1, 2} {
		for _, skew := range []time.Duration{0, time.Second, time.Hour} {
			out = append(out, gridCheck(cluster.MergeOptions{VersionConcurrentStrategy: strategy, MaxClockSkew: skew}, fmt.Sprintf("strategy=%d/skew=%v", strategy, skew)))
		}
	}
	for _, strategy := range []int{0, 1, 2} {
		out = append(out, tripleCheck(strategy))
	}
	if tier == "thorough" {
		out = append(out, reachCheck(5, 1200))
	} else {
		out = append(out, reachCheck(3, 300))
	}
	return out
}

func main() { venum.Main("C17", "c17", build) }
