package main

// A generated type grammar for the primitive layer: instead of a hand-picked list of shapes, every type that can be formed from
// the twelve basic kinds with the constructors slice / array[0..2] / struct{1 field} / struct{2 fields} up to a nesting depth
// (2 in the quick tier, 3 in the thorough tier) is built with package reflect, a few boundary values of each are written with
// Writer.Write and read back with Reader.Read, followed by a sentinel, in value form, pointer form and little-endian.
//
// Two further checks put the same question to the types the writer accepts beyond the documented list - named basic types and
// pointer-typed fields / elements: whatever the writer accepts without an error the reader has to read back.

import (
	"encoding/binary"
	"fmt"
	"math"
	"reflect"
	"strings"

	"github.com/kercylan98/vivid/internal/messages"
	"github.com/kercylan98/vivid/internal/verif/venum"
)

type gType struct {
	t    reflect.Type
	vals []reflect.Value // a few boundary values, first = zero-ish, last = extreme
}

func rv(v any) reflect.Value { return reflect.ValueOf(v) }

func baseTypes() []gType {
	return []gType{
		{reflect.TypeOf(false), []reflect.Value{rv(false), rv(true)}},
		{reflect.TypeOf(int8(0)), []reflect.Value{rv(int8(0)), rv(int8(math.MinInt8)), rv(int8(math.MaxInt8))}},
		{reflect.TypeOf(int16(0)), []reflect.Value{rv(int16(0)), rv(int16(math.MinInt16)), rv(int16(0x0102))}},
		{reflect.TypeOf(int32(0)), []reflect.Value{rv(int32(0)), rv(int32(math.MinInt32)), rv(int32(0x01020304))}},
		{reflect.TypeOf(int64(0)), []reflect.Value{rv(int64(0)), rv(int64(math.MinInt64)), rv(int64(0x0102030405060708))}},
		{reflect.TypeOf(uint8(0)), []reflect.Value{rv(uint8(0)), rv(uint8(255))}},
		{reflect.TypeOf(uint16(0)), []reflect.Value{rv(uint16(0)), rv(uint16(0xfffe))}},
		{reflect.TypeOf(uint32(0)), []reflect.Value{rv(uint32(0)), rv(uint32(0xfffffffe))}},
		{reflect.TypeOf(uint64(0)), []reflect.Value{rv(uint64(0)), rv(uint64(math.MaxUint64 - 1))}},
		{reflect.TypeOf(float32(0)), []reflect.Value{rv(float32(0)), rv(float32(-1.5)), rv(float32(math.MaxFloat32))}},
		{reflect.TypeOf(float64(0)), []reflect.Value{rv(float64(0)), rv(math.SmallestNonzeroFloat64), rv(math.Inf(-1))}},
		{reflect.TypeOf(""), []reflect.Value{rv(""), rv("a"), rv("héllo✓")}},
	}
}

func first(g gType) reflect.Value { return g.vals[0] }
func last(g gType) reflect.Value  { return g.vals[len(g.vals)-1] }

func sliceOf(g gType) gType {
	st := reflect.SliceOf(g.t)
	empty := reflect.MakeSlice(st, 0, 0)
	one := reflect.Append(reflect.MakeSlice(st, 0, 1), last(g))
	three := reflect.Append(reflect.MakeSlice(st, 0, 3), last(g), first(g), last(g))
	return gType{st, []reflect.Value{empty, one, three}}
}

func arrayOf(n int, g gType) gType {
	at := reflect.ArrayOf(n, g.t)
	a, b := reflect.New(at).Elem(), reflect.New(at).Elem()
	for i := 0; i < n; i++ {
		a.Index(i).Set(first(g))
		if i%2 == 0 {
			b.Index(i).Set(last(g))
		} else {
			b.Index(i).Set(first(g))
		}
	}
	if n == 0 {
		return gType{at, []reflect.Value{a}}
	}
	return gType{at, []reflect.Value{a, b}}
}

func structOf(gs ...gType) gType {
	fields := make([]reflect.StructField, len(gs))
	for i, g := range gs {
		fields[i] = reflect.StructField{Name: fmt.Sprintf("F%d", i), Type: g.t}
	}
	st := reflect.StructOf(fields)
	a, b, c := reflect.New(st).Elem(), reflect.New(st).Elem(), reflect.New(st).Elem()
	for i, g := range gs {
		a.Field(i).Set(first(g))
		b.Field(i).Set(last(g))
		if i%2 == 0 {
			c.Field(i).Set(last(g))
		} else {
			c.Field(i).Set(first(g))
		}
	}
	if len(gs) == 1 {
		return gType{st, []reflect.Value{a, b}}
	}
	return gType{st, []reflect.Value{a, b, c}}
}

// nextLevel applies every constructor once to every type of prev; the second field of a two-field struct ranges over the basic
// types (before and after the nested field), which keeps a level at about 30 times the size of the previous one
func nextLevel(prev, base []gType) []gType {
	var out []gType
	for _, g := range prev {
		out = append(out, sliceOf(g), arrayOf(0, g), arrayOf(1, g), arrayOf(2, g), structOf(g))
		for _, b := range base {
			out = append(out, structOf(g, b), structOf(b, g))
		}
	}
	return out
}

// normalise makes nil and empty slices equal (the wire format cannot tell them apart)
func normalise(v reflect.Value) reflect.Value {
	switch v.Kind() {
	case reflect.Slice:
		out := reflect.MakeSlice(v.Type(), v.Len(), v.Len())
		for i := 0; i < v.Len(); i++ {
			out.Index(i).Set(normalise(v.Index(i)))
		}
		return out
	case reflect.Array:
		out := reflect.New(v.Type()).Elem()
		for i := 0; i < v.Len(); i++ {
			out.Index(i).Set(normalise(v.Index(i)))
		}
		return out
	case reflect.Struct:
		out := reflect.New(v.Type()).Elem()
		for i := 0; i < v.NumField(); i++ {
			if out.Field(i).CanSet() {
				out.Field(i).Set(normalise(v.Field(i)))
			}
		}
		return out
	case reflect.Ptr:
		if v.IsNil() {
			return v
		}
		out := reflect.New(v.Type().Elem())
		out.Elem().Set(normalise(v.Elem()))
		return out
	}
	return v
}

const sentinel = uint32(0xfeedbeef)

// roundTrip writes v (value form, pointer form or little-endian) followed by a sentinel and reads both back.
// It returns ("", "") when everything agrees, otherwise the rule broken and a description.
func roundTrip(t reflect.Type, v reflect.Value, form string) (rule, detail string) {
	var wopt []messages.WriterOption
	var ropt []messages.ReaderOption
	if form == "little-endian" {
		wopt = append(wopt, messages.WriterOption{ByteOrder: binary.LittleEndian})
		ropt = append(ropt, messages.ReaderOption{ByteOrder: binary.LittleEndian})
	}
	w := messages.NewWriter(wopt...)
	if form == "pointer" {
		p := reflect.New(t)
		p.Elem().Set(v)
		w.Write(p.Interface())
	} else {
		w.Write(v.Interface())
	}
	if w.Err() != nil {
		return "writer-accepts", fmt.Sprintf("Write failed: %v", w.Err())
	}
	n := len(w.Bytes())
	w.WriteUint32(sentinel)
	target := reflect.New(t)
	r := messages.NewReader(w.Bytes(), ropt...)
	if err := r.Read(target.Interface()); err != nil {
		if !strings.Contains(err.Error(), "unsupported type for reading") {
			// the reader knows the type but fails on the writer's own bytes: never the same thing as refusing the type
			return "reader-fails-on-writer-output", fmt.Sprintf("the writer produced %d bytes which Read rejected: %v", n, err)
		}
		return "writer-reader-agree", fmt.Sprintf("the writer accepted the value (%d bytes) but Read of those bytes failed: %v", n, err)
	}
	if !reflect.DeepEqual(normalise(target.Elem()).Interface(), normalise(v).Interface()) {
		return "primitive-roundtrip", fmt.Sprintf("read back %+v", target.Elem().Interface())
	}
	if r.Pos() != n {
		return "reader-consumes-exactly", fmt.Sprintf("reader consumed %d of the %d bytes the writer produced", r.Pos(), n)
	}
	if s, err := r.ReadUint32(); err != nil || s != sentinel {
		return "reader-consumes-exactly", fmt.Sprintf("the value written after it read back as %x (err %v)", s, err)
	}
	return "", ""
}

func grammarCheck(tier string) *venum.Check {
	depth := 2
	if tier == "thorough" {
		depth = 3
	}
	return &venum.Check{Name: fmt.Sprintf("primitives/type-grammar-depth-%d", depth), Family: "primitives", Run: func(c *venum.Ctx) {
		base := baseTypes()
		level := base
		types := 0
		for d := 0; d <= depth; d++ {
			if d > 0 {
				level = nextLevel(level, base)
			}
			for _, g := range level {
				types++
				for vi, v := range g.vals {
					for _, form := range []string{"value", "pointer", "little-endian"} {
						in := map[string]any{"type": g.t.String(), "value": fmt.Sprintf("%+v", v.Interface()), "form": form, "depth": d}
						safely(c, "primitive-no-panic", in, func() {
							c.Case("", false)
							if rule, detail := roundTrip(g.t, v, form); rule != "" {
								c.Fail(rule, in, "%s", detail)
							}
						})
					}
					_ = vi
				}
				c.DistinctN(int64(3 * len(g.vals)))
			}
		}
		c.Note("type grammar: %d distinct types up to depth %d (basic kinds; slice, array[0..2], struct of 1 or 2 fields)", types, depth)
		c.Sample(map[string]any{"types": types, "depth": depth, "last_type": level[len(level)-1].t.String()})
	}}
}

// ---- types the writer accepts beyond the documented list ---------------------------------------------------------------

type (
	nBool bool
	nI8   int8
	nI16  int16
	nI32  int32
	nI64  int64
	nU8   uint8
	nU16  uint16
	nU32  uint32
	nU64  uint64
	nF32  float32
	nF64  float64
	nStr  string
)

func namedBasics() []gType {
	return []gType{
		{reflect.TypeOf(nBool(false)), []reflect.Value{rv(nBool(false)), rv(nBool(true))}},
		{reflect.TypeOf(nI8(0)), []reflect.Value{rv(nI8(0)), rv(nI8(math.MinInt8))}},
		{reflect.TypeOf(nI16(0)), []reflect.Value{rv(nI16(0)), rv(nI16(math.MinInt16))}},
		{reflect.TypeOf(nI32(0)), []reflect.Value{rv(nI32(0)), rv(nI32(math.MinInt32))}},
		{reflect.TypeOf(nI64(0)), []reflect.Value{rv(nI64(0)), rv(nI64(math.MinInt64))}},
		{reflect.TypeOf(nU8(0)), []reflect.Value{rv(nU8(0)), rv(nU8(255))}},
		{reflect.TypeOf(nU16(0)), []reflect.Value{rv(nU16(0)), rv(nU16(0xfffe))}},
		{reflect.TypeOf(nU32(0)), []reflect.Value{rv(nU32(0)), rv(nU32(0xfffffffe))}},
		{reflect.TypeOf(nU64(0)), []reflect.Value{rv(nU64(0)), rv(nU64(math.MaxUint64 - 1))}},
		{reflect.TypeOf(nF32(0)), []reflect.Value{rv(nF32(0)), rv(nF32(-1.5))}},
		{reflect.TypeOf(nF64(0)), []reflect.Value{rv(nF64(0)), rv(nF64(math.Inf(-1)))}},
		{reflect.TypeOf(nStr("")), []reflect.Value{rv(nStr("")), rv(nStr("héllo✓"))}},
	}
}

// agreeCheck: for each type, if the writer accepts a value the reader must read it back (a writer that refuses is in agreement
// with a reader that would refuse; what is never acceptable is bytes that cannot be read, or that read back as something else)
func agreeCheck(name string, gen func() []gType) *venum.Check {
	return &venum.Check{Name: name, Family: "primitives", Run: func(c *venum.Ctx) {
		gs := gen()
		for _, g := range gs {
			for _, v := range g.vals {
				for _, form := range []string{"value", "pointer", "little-endian"} {
					in := map[string]any{"type": g.t.String(), "value": fmt.Sprintf("%+v", v.Interface()), "form": form}
					safely(c, "primitive-no-panic", in, func() {
						c.Case(fmt.Sprintf("%s|%v|%+v|%s", name, g.t, v.Interface(), form), true)
						rule, detail := roundTrip(g.t, v, form)
						if rule == "writer-accepts" {
							return // refused by the writer: nothing was promised
						}
						if rule != "" {
							c.Fail(rule, in, "%s", detail)
						}
					})
				}
			}
		}
		c.Sample(map[string]any{"types": len(gs), "first_type": gs[0].t.String()})
	}}
}

// named basic types: bare, as a struct field, as a slice element, as an array element
func namedContexts() []gType {
	var out []gType
	for _, g := range namedBasics() {
		out = append(out, g, structOf(g), structOf(baseTypes()[3], g), sliceOf(g), arrayOf(2, g))
		// ... and nested: slices of structs of it, structs of slices / arrays of it, next to every basic kind
		out = append(out, sliceOf(structOf(g)), structOf(sliceOf(g)), structOf(arrayOf(2, g)), arrayOf(2, sliceOf(g)))
		for _, b := range baseTypes() {
			out = append(out, structOf(g, b), structOf(b, g), sliceOf(structOf(b, g)))
		}
	}
	return out
}

// pointer-typed fields and elements (non-nil: the writer refuses nil pointers)
func pointerContexts() []gType {
	ptrTo := func(g gType) gType {
		pt := reflect.PointerTo(g.t)
		var vals []reflect.Value
		for _, v := range g.vals {
			p := reflect.New(g.t)
			p.Elem().Set(v)
			vals = append(vals, p)
		}
		return gType{pt, vals}
	}
	var out []gType
	for _, g := range baseTypes() {
		p := ptrTo(g)
		out = append(out, structOf(p), structOf(baseTypes()[3], p), sliceOf(p), arrayOf(2, p))
	}
	i32 := baseTypes()[3]
	out = append(out, structOf(ptrTo(ptrTo(i32))), structOf(ptrTo(structOf(i32))), structOf(ptrTo(sliceOf(i32))), structOf(ptrTo(arrayOf(2, i32))))
	return out
}
