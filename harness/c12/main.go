// Harness c12: the wire codec round-trips every value of every registered message type, the
// envelope metadata, and every supported primitive / slice / array / struct shape.
package main

import (
	"bytes"
	"encoding/binary"
	"fmt"
	"math"
	"reflect"
	"strings"

	"github.com/kercylan98/vivid"
	_ "github.com/kercylan98/vivid/internal/actor"
	"github.com/kercylan98/vivid/internal/mailbox"
	"github.com/kercylan98/vivid/internal/messages"
	"github.com/kercylan98/vivid/internal/remoting/serialize"
	"github.com/kercylan98/vivid/internal/verif/vcodec"
	"github.com/kercylan98/vivid/internal/verif/venum"
)

func safely(c *venum.Ctx, rule string, in any, f func()) {
	defer func() {
		if r := recover(); r != nil {
			c.Fail(rule, in, "panic: %v", r)
		}
	}()
	f()
}

func typeCheck(name string) *venum.Check {
	return &venum.Check{Name: "registered/" + name, Family: "registered-types", Run: func(c *venum.Ctx) {
		codec := vcodec.UserCodec{}
		vals := vcodec.Corpus()[name]
		if len(vals) == 0 {
			c.Fail("corpus-covers-registry", name, "the wire registry contains %q but the harness has no values for it", name)
			return
		}
		for vi, v := range vals {
			in := map[string]any{"type": name, "value": vcodec.CanonMessage(name, v), "index": vi}
			want := vcodec.CanonMessage(name, v)
			// 1. the registered writer / reader directly
			safely(c, "roundtrip-no-panic", in, func() {
				c.Case(name+"|direct|"+want, true)
				w := messages.NewWriter()
				if err := messages.VerifWrite(name, v, w, codec); err != nil {
					c.Fail("roundtrip-direct", in, "writer failed: %v", err)
					return
				}
				if w.Err() != nil {
					c.Fail("roundtrip-direct", in, "writer left an error: %v", w.Err())
					return
				}
				r := messages.NewReader(w.Bytes())
				back, err := messages.VerifRead(name, r, codec)
				if err != nil {
					c.Fail("roundtrip-direct", in, "reader failed on the writer's own output: %v", err)
					return
				}
				if got := vcodec.CanonMessage(name, back); got != want {
					c.Fail("roundtrip-direct", in, "decoded value differs: %s", got)
				}
				if r.Pos() != len(w.Bytes()) {
					c.Fail("reader-consumes-exactly", in, "reader consumed %d of the %d bytes the writer produced", r.Pos(), len(w.Bytes()))
				}
			})
			// 1b / 2b. the same two routes with writer and reader configured for little-endian (option ByteOrder)
			safely(c, "roundtrip-no-panic", in, func() {
				c.Case(name+"|direct-le|"+want, true)
				w := messages.NewWriter(messages.WriterOption{ByteOrder: binary.LittleEndian})
				if err := messages.VerifWrite(name, v, w, codec); err != nil || w.Err() != nil {
					c.Fail("roundtrip-direct", in, "little-endian writer failed: %v / %v", err, w.Err())
					return
				}
				r := messages.NewReader(w.Bytes(), messages.ReaderOption{ByteOrder: binary.LittleEndian})
				back, err := messages.VerifRead(name, r, codec)
				if err != nil {
					c.Fail("roundtrip-direct", in, "little-endian reader failed on the little-endian writer's output: %v", err)
					return
				}
				if got := vcodec.CanonMessage(name, back); got != want {
					c.Fail("roundtrip-direct", in, "little-endian round trip: decoded value differs: %s", got)
				}
			})
			safely(c, "roundtrip-no-panic", in, func() {
				c.Case(name+"|nested-le|"+want, true)
				w := messages.NewWriter(messages.WriterOption{ByteOrder: binary.LittleEndian})
				if err := w.WriteMessage(v, codec); err != nil {
					c.Fail("roundtrip-nested", in, "little-endian WriteMessage failed: %v", err)
					return
				}
				r := messages.NewReader(w.Bytes(), messages.ReaderOption{ByteOrder: binary.LittleEndian})
				back, err := r.ReadMessage(codec)
				if err != nil {
					c.Fail("roundtrip-nested", in, "little-endian ReadMessage failed: %v", err)
					return
				}
				if got := vcodec.CanonMessage(name, back); got != want {
					c.Fail("roundtrip-nested", in, "little-endian nested round trip: decoded value differs: %s", got)
				}
				if r.Pos() != len(w.Bytes()) {
					c.Fail("reader-consumes-exactly", in, "little-endian ReadMessage consumed %d of %d bytes", r.Pos(), len(w.Bytes()))
				}
			})
			// 2. nested through WriteMessage / ReadMessage
			safely(c, "roundtrip-no-panic", in, func() {
				c.Case(name+"|nested|"+want, true)
				w := messages.NewWriter()
				if err := w.WriteMessage(v, codec); err != nil {
					c.Fail("roundtrip-nested", in, "WriteMessage failed: %v", err)
					return
				}
				r := messages.NewReader(w.Bytes())
				back, err := r.ReadMessage(codec)
				if err != nil {
					c.Fail("roundtrip-nested", in, "ReadMessage failed: %v", err)
					return
				}
				if got := vcodec.CanonMessage(name, back); got != want {
					c.Fail("roundtrip-nested", in, "decoded value differs: %s", got)
				}
				if r.Pos() != len(w.Bytes()) {
					c.Fail("reader-consumes-exactly", in, "ReadMessage consumed %d of %d bytes", r.Pos(), len(w.Bytes()))
				}
			})
			// 3. in an envelope, all metadata combinations (first three values of each type)
			if vi >= 3 {
				continue
			}
			for _, system := range []bool{false, true} {
				for si, sender := range vcodec.Refs() {
					for ri, receiver := range vcodec.Refs()[:3] {
						ein := map[string]any{"type": name, "value": want, "system": system, "sender": si, "receiver": ri}
						safely(c, "roundtrip-no-panic", ein, func() {
							c.Case(fmt.Sprintf("%s|env|%s|%v|%d|%d", name, want, system, si, ri), true)
							env := mailbox.NewEnvelop(system, sender, receiver, v)
							data, err := serialize.EncodeEnvelopWithRemoting(codec, env)
							if err != nil {
								c.Fail("roundtrip-envelope", ein, "encode failed: %v", err)
								return
							}
							sys2, sa, sp, ra, rp, back, err := serialize.DecodeEnvelopWithRemoting(codec, data)
							if err != nil {
								c.Fail("roundtrip-envelope", ein, "decode failed: %v", err)
								return
							}
							wsa, wsp, wra, wrp := "", "", "", ""
							if sender != nil {
								wsa, wsp = sender.GetAddress(), sender.GetPath()
							}
							if receiver != nil {
								wra, wrp = receiver.GetAddress(), receiver.GetPath()
							}
							if sys2 != system || sa != wsa || sp != wsp || ra != wra || rp != wrp {
								c.Fail("envelope-metadata", ein, "metadata changed: system %v->%v sender %s%s->%s%s receiver %s%s->%s%s", system, sys2, wsa, wsp, sa, sp, wra, wrp, ra, rp)
							}
							if got := vcodec.CanonMessage(name, back); got != want {
								c.Fail("roundtrip-envelope", ein, "decoded message differs: %s", got)
							}
						})
					}
				}
			}
		}
		c.Sample(map[string]any{"type": name, "value": vcodec.CanonMessage(name, vals[0])})
	}}
}

// ---- primitive layer ---------------------------------------------------------------------------

type inner struct {
	A int8
	B []uint16
	C [2]string
}

type outer struct {
	X  uint64
	In inner
	Ls []inner
	F  float64
	Bs []byte
	Ok bool
	S  string
}

func primitives() []any {
	var out []any
	add := func(vs ...any) { out = append(out, vs...) }
	add(byte(0), byte(255), int8(math.MinInt8), int8(math.MaxInt8), int16(math.MinInt16), int16(math.MaxInt16), uint16(0), uint16(math.MaxUint16))
	add(int32(math.MinInt32), int32(math.MaxInt32), uint32(0), uint32(math.MaxUint32), int64(math.MinInt64), int64(math.MaxInt64), uint64(0), uint64(math.MaxUint64))
	add(float32(0), float32(-1.5), float32(math.MaxFloat32), math.SmallestNonzeroFloat64, math.MaxFloat64, math.Inf(-1), true, false)
	for _, s := range vcodec.Strings {
		add(s)
	}
	add([]byte(nil), []byte{}, []byte{0}, []byte{1, 2, 255})
	add([4]byte{1, 2, 3, 255}, [2]uint8{}, struct{ A [2]byte }{[2]byte{7, 8}}, [][2]byte{{1, 2}, {3, 4}}, [2][2]uint8{{1, 2}, {3, 4}}, struct {
		N byte
		B [3]byte
		S string
	}{1, [3]byte{4, 5, 6}, "z"})
	add([]uint16{}, []uint16{1, 65535}, []string{"", "a"}, [][]byte{{1}, {}}, [3]int32{1, -2, 3}, [0]int8{}, [][]int64{{1}, {}, {2, 3}})
	add(inner{A: -3, B: []uint16{7}, C: [2]string{"x", ""}}, outer{X: 9, In: inner{A: 1}, Ls: []inner{{}, {A: 2, B: []uint16{1, 2}}}, F: 2.5, Bs: []byte{9}, Ok: true, S: "s"}, []outer{{}, {S: "héllo✓"}})
	// element types that differ in width but not in name (anonymous structs, local types of the same name): wide first, then
	// narrow at the very end of its buffer, then the other way round
	type el struct{ A, B, C int64 }
	add([]struct{ A, B int64 }{{1, 2}}, []struct{ A byte }{{7}, {8}}, []struct{ S string }{{"x"}, {""}}, []struct{ A byte }{{9}}, []struct{ A, B, C, D int64 }{{1, 2, 3, 4}}, []el{{1, 2, 3}})
	out = append(out, narrowEl()...)
	return out
}

func narrowEl() []any {
	type el struct{ A byte }
	return []any{[]el{{1}, {2}, {3}}}
}

func primitiveCheck() *venum.Check {
	return &venum.Check{Name: "primitives/write-read", Family: "primitives", Run: func(c *venum.Ctx) {
		for _, v := range primitives() {
			for _, ptr := range []bool{false, true} {
				in := map[string]any{"type": fmt.Sprintf("%T", v), "value": fmt.Sprintf("%v", v), "as_pointer": ptr}
				safely(c, "primitive-no-panic", in, func() {
					c.Case(fmt.Sprintf("%T|%v|%v", v, v, ptr), true)
					w := messages.NewWriter()
					if ptr {
						p := reflect.New(reflect.TypeOf(v))
						p.Elem().Set(reflect.ValueOf(v))
						w.Write(p.Interface())
					} else {
						w.Write(v)
					}
					if w.Err() != nil {
						c.Fail("primitive-roundtrip", in, "Write failed: %v", w.Err())
						return
					}
					target := reflect.New(reflect.TypeOf(v))
					r := messages.NewReader(w.Bytes())
					if err := r.Read(target.Interface()); err != nil {
						c.Fail("primitive-roundtrip", in, "Read of the written bytes failed: %v", err)
						return
					}
					if vcodec.Canon(target.Elem().Interface()) != vcodec.Canon(v) {
						c.Fail("primitive-roundtrip", in, "read back %v", target.Elem().Interface())
					}
					if r.Pos() != len(w.Bytes()) {
						c.Fail("reader-consumes-exactly", in, "reader consumed %d of %d bytes", r.Pos(), len(w.Bytes()))
					}
				})
			}
		}
		// the same values with writer and reader configured for little-endian
		for _, v := range primitives() {
			in := map[string]any{"type": fmt.Sprintf("%T", v), "value": fmt.Sprintf("%v", v), "byte_order": "little-endian"}
			safely(c, "primitive-no-panic", in, func() {
				c.Case(fmt.Sprintf("le|%T|%v", v, v), true)
				w := messages.NewWriter(messages.WriterOption{ByteOrder: binary.LittleEndian})
				w.Write(v)
				if w.Err() != nil {
					c.Fail("primitive-roundtrip", in, "little-endian Write failed: %v", w.Err())
					return
				}
				target := reflect.New(reflect.TypeOf(v))
				r := messages.NewReader(w.Bytes(), messages.ReaderOption{ByteOrder: binary.LittleEndian})
				if err := r.Read(target.Interface()); err != nil || vcodec.Canon(target.Elem().Interface()) != vcodec.Canon(v) || r.Pos() != len(w.Bytes()) {
					c.Fail("primitive-roundtrip", in, "little-endian round trip: err=%v, read back %v, consumed %d of %d", err, target.Elem().Interface(), r.Pos(), len(w.Bytes()))
				}
			})
		}
		// several values in a row: positions stay aligned
		w := messages.NewWriter()
		ps := primitives()
		for _, v := range ps {
			w.Write(v)
		}
		r := messages.NewReader(w.Bytes())
		for i, v := range ps {
			target := reflect.New(reflect.TypeOf(v))
			if err := r.Read(target.Interface()); err != nil {
				c.Fail("primitive-sequence", i, "value #%d (%T) of a sequence failed to read: %v", i, v, err)
				break
			}
			if vcodec.Canon(target.Elem().Interface()) != vcodec.Canon(v) {
				c.Fail("primitive-sequence", i, "value #%d (%T) of a sequence read back as %v", i, v, target.Elem().Interface())
				break
			}
			c.Case(fmt.Sprintf("seq|%d", i), true)
		}
		c.Sample(map[string]any{"type": "outer", "value": fmt.Sprintf("%+v", ps[len(ps)-2])})
	}}
}

// the length-prefixed byte / short-string primitives at the boundaries of their 1-, 2- and 4-byte prefixes: a value is either
// rejected by the writer or comes back exactly, followed by an intact sentinel, with every byte consumed
func lengthPrefixCheck() *venum.Check {
	return &venum.Check{Name: "primitives/length-prefix-boundaries", Family: "primitives", Run: func(c *venum.Ctx) {
		for _, ls := range []int{messages.LengthSize1, messages.LengthSize2, messages.LengthSize4} {
			for _, n := range []int{0, 1, 2, 254, 255, 256, 257, 65534, 65535, 65536, 65537} {
				in := map[string]any{"length_size": ls, "payload_bytes": n}
				c.Case(fmt.Sprintf("bytes|%d|%d", ls, n), true)
				safely(c, "primitive-no-panic", in, func() {
					payload := bytes.Repeat([]byte{0xab}, n)
					w := messages.NewWriter()
					w.WriteBytesWithLength(payload, ls).WriteUint32(0xfeedbeef)
					if w.Err() != nil {
						return // rejected: nothing was promised
					}
					r := messages.NewReader(w.Bytes())
					back, err := r.ReadBytesWithLength(ls)
					if err != nil || !bytes.Equal(back, payload) {
						c.Fail("primitive-roundtrip", in, "WriteBytesWithLength accepted %d bytes with a %d-byte prefix but they read back as %d bytes (err %v)", n, ls, len(back), err)
						return
					}
					if v, err := r.ReadUint32(); err != nil || v != 0xfeedbeef || r.Pos() != len(w.Bytes()) {
						c.Fail("reader-consumes-exactly", in, "the value written after a %d-byte payload (prefix %d) read back as %x (err %v), reader at %d of %d", n, ls, v, err, r.Pos(), len(w.Bytes()))
					}
				})
			}
		}
		for _, n := range []int{0, 1, 254, 255, 256, 257, 300} {
			in := map[string]any{"short_string_bytes": n}
			c.Case(fmt.Sprintf("shortstring|%d", n), true)
			safely(c, "primitive-no-panic", in, func() {
				str := strings.Repeat("s", n)
				w := messages.NewWriter()
				w.WriteShortString(str).WriteUint32(0xfeedbeef)
				if w.Err() != nil {
					return
				}
				r := messages.NewReader(w.Bytes())
				back, err := r.ReadShortString()
				if err != nil || back != str {
					c.Fail("primitive-roundtrip", in, "WriteShortString accepted %d bytes but they read back as %d bytes (err %v)", n, len(back), err)
					return
				}
				if v, err := r.ReadUint32(); err != nil || v != 0xfeedbeef || r.Pos() != len(w.Bytes()) {
					c.Fail("reader-consumes-exactly", in, "the value written after a %d-byte short string read back as %x (err %v)", n, v, err)
				}
			})
		}
		c.Sample(map[string]any{"length_size": 1, "payload_bytes": 256})
	}}
}

// sequences of encodes / decodes: results must not alias shared (pooled) state
func sequenceCheck() *venum.Check {
	return &venum.Check{Name: "sequences/encode-encode-decode+decode-after-failure", Family: "sequences", Run: func(c *venum.Ctx) {
		codec := vcodec.UserCodec{}
		corpus := vcodec.Corpus()
		names, _ := messages.VerifRegistry()
		type enc struct {
			name string
			want string
			data []byte
			v    any
		}
		var all []enc
		for _, n := range names {
			if vcodec.Unreadable[n] {
				continue
			}
			for i, v := range corpus[n] {
				if i >= 2 {
					break
				}
				env := mailbox.NewEnvelop(false, vcodec.Refs()[1], vcodec.Refs()[2], v)
				data, err := serialize.EncodeEnvelopWithRemoting(codec, env)
				if err != nil {
					continue
				}
				all = append(all, enc{n, vcodec.CanonMessage(n, v), data, v})
			}
		}
		// every encoding is still intact after all the later encodes
		for i, e := range all {
			c.Case(fmt.Sprintf("late-decode|%d", i), true)
			in := map[string]any{"type": e.name, "value": e.want, "position_in_sequence": i, "sequence_length": len(all)}
			safely(c, "roundtrip-no-panic", in, func() {
				_, _, _, _, _, back, err := serialize.DecodeEnvelopWithRemoting(codec, e.data)
				if err != nil {
					c.Fail("encoding-not-aliased", in, "an encoding produced earlier no longer decodes after later encodes: %v", err)
					return
				}
				if got := vcodec.CanonMessage(e.name, back); got != e.want {
					c.Fail("encoding-not-aliased", in, "an encoding produced earlier decodes to a different value after later encodes: %s", got)
				}
			})
		}
		// a decode that fails must not poison the next decode of a valid encoding
		for i, e := range all {
			for _, cut := range []int{0, 1, len(e.data) / 2, len(e.data) - 1} {
				if cut < 0 || cut >= len(e.data) {
					continue
				}
				c.Case(fmt.Sprintf("after-failure|%d|%d", i, cut), true)
				in := map[string]any{"type": e.name, "value": e.want, "truncated_to": cut}
				safely(c, "roundtrip-no-panic", in, func() {
					serialize.DecodeEnvelopWithRemoting(codec, e.data[:cut])
					_, _, _, _, _, back, err := serialize.DecodeEnvelopWithRemoting(codec, e.data)
					if err != nil {
						c.Fail("decode-after-failed-decode", in, "a valid encoding failed to decode right after a truncated one was rejected: %v", err)
						return
					}
					if got := vcodec.CanonMessage(e.name, back); got != e.want {
						c.Fail("decode-after-failed-decode", in, "a valid encoding decoded to %s right after a truncated one was rejected", got)
					}
					// the primitive reader pool as well
					r := messages.NewReaderFromPool([]byte{1})
					var x uint64
					r.Read(&x)
					messages.ReleaseReaderToPool(r)
					r2 := messages.NewReaderFromPool([]byte{0, 0, 0, 7})
					var y uint32
					if err := r2.Read(&y); err != nil || y != 7 {
						c.Fail("decode-after-failed-decode", in, "a pooled reader kept the error of its previous user: %v (value %d)", err, y)
					}
					messages.ReleaseReaderToPool(r2)
				})
			}
		}
		// an encode that fails must not poison the next encode (writers are pooled as well)
		for i, e := range all {
			c.Case(fmt.Sprintf("encode-after-failure|%d", i), true)
			in := map[string]any{"type": e.name, "value": e.want, "encoded_right_after": "a verifShortTagMsg whose 300-byte tag cannot be represented"}
			safely(c, "roundtrip-no-panic", in, func() {
				var badMsg any = &vcodec.ShortTagMsg{Tag: strings.Repeat("t", 300)}
				if i%2 == 1 {
					// the rejected message had already made its writer grow beyond any "keep small buffers" threshold
					badMsg = &vcodec.PadTagMsg{Pad: bytes.Repeat([]byte{9}, 70000), Tag: strings.Repeat("t", 300)}
				}
				bad := mailbox.NewEnvelop(false, vcodec.Refs()[1], vcodec.Refs()[2], badMsg)
				if _, err := serialize.EncodeEnvelopWithRemoting(codec, bad); err == nil {
					c.Fail("unrepresentable-value-rejected", in, "a 300-byte short string was encoded without an error")
				}
				data, err := serialize.EncodeEnvelopWithRemoting(codec, mailbox.NewEnvelop(false, vcodec.Refs()[1], vcodec.Refs()[2], e.v))
				if err != nil {
					c.Fail("encode-after-failed-encode", in, "a valid message failed to encode right after another message was rejected: %v", err)
					return
				}
				_, _, _, _, _, back, err := serialize.DecodeEnvelopWithRemoting(codec, data)
				if err != nil {
					c.Fail("encode-after-failed-encode", in, "the encoding produced right after a rejected message does not decode: %v", err)
					return
				}
				if got := vcodec.CanonMessage(e.name, back); got != e.want {
					c.Fail("encode-after-failed-encode", in, "the encoding produced right after a rejected message decodes to %s", got)
				}
			})
		}
		c.Sample(map[string]any{"encodings_in_sequence": len(all)})
	}}
}

func build(tier string) []*venum.Check {
	names, _ := messages.VerifRegistry()
	var out []*venum.Check
	for _, n := range names {
		if vcodec.Unreadable[n] {
			continue // rejected by its reader on purpose (used by the remoting checks)
		}
		out = append(out, typeCheck(n))
	}
	out = append(out, primitiveCheck(), lengthPrefixCheck(), sequenceCheck())
	out = append(out, grammarCheck(tier), agreeCheck("primitives/named-basic-types", namedContexts), agreeCheck("primitives/pointer-fields", pointerContexts))
	_ = vivid.ErrorNotFound
	return out
}

func main() { venum.Main("C12", "c12", build) }
