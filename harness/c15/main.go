// Harness c15: location transparency. Every ActorContext operation that takes an ActorRef is run
// against a local target and against a target on another System (in-memory network), with a
// user Codec (message type outside the registry) and without one (registered message type);
// the observable effect must be the same.
package main

import (
	"fmt"
	"strings"
	"time"

	"github.com/kercylan98/vivid"
	"github.com/kercylan98/vivid/internal/verif/vcodec"
	"github.com/kercylan98/vivid/internal/verif/vexp"
	"github.com/kercylan98/vivid/internal/verif/vnet"
	"github.com/kercylan98/vivid/internal/verif/vrt"
	"github.com/kercylan98/vivid/internal/verif/vsys"
)

const addrA, addrB = "127.0.0.1:1001", "127.0.0.1:1002"

type params struct {
	op     string // tell | ask | kill | poison | watch | unwatch | ping | pipe-ok | pipe-err | pipe-remote-forwarder | once | loop | watch2 | unwatch2a | unwatch2b
	remote bool
	codec  bool
	pre    string // "" | reused-name: the target has received one message, was killed and an actor with the same name was spawned again | first-contact: another actor of the caller's system uses the remote address for the first time at the same moment (watch-kill only) | bad-tell: before the operation the caller Tells the target a message its registered writer rejects
}

func (p params) name() string {
	n := fmt.Sprintf("%s/remote=%v/codec=%v", p.op, p.remote, p.codec)
	if p.pre != "" {
		n += "/after=" + p.pre
	}
	return n
}

func text(m any) string {
	switch v := m.(type) {
	case *vcodec.CustomMsg:
		return v.T
	case *vcodec.UserMsg:
		return v.S
	case nil:
		return "<nil>"
	}
	return fmt.Sprintf("%T", m)
}

func scenario(p params, bounds []int) *vexp.Scenario {
	cfg := vsys.CoarseSends(400000)
	cfg.SwitchOnNet = true
	if p.pre == "first-contact" {
		cfg.FinePkgs = []string{"vivid/internal/remoting."}
	}
	return &vexp.Scenario{
		Name:   p.name(),
		Family: p.op,
		Cfg:    cfg,
		Bounds: bounds,
		Setup:  func(x *vexp.X) { vsys.CoarseSetupSends() },
		Body: func(x *vexp.X) {
			nw := vnet.Reset()
			if p.pre == "short-reads" {
				// a read may return fewer bytes than are available (1, 3, 4, 5, half, all but one): one such deviation per execution
				nw.ChunkOptions = func(c *vnet.VConn, avail int) []int {
					opts := []int{avail}
					for _, k := range []int{1, 3, 4, 5, avail / 2, avail - 1} {
						if k >= 1 && k < avail {
							dup := false
							for _, o := range opts {
								dup = dup || o == k
							}
							if !dup {
								opts = append(opts, k)
							}
						}
					}
					return opts
				}
			}
			mk := func(bind string) *vsys.World {
				opts := []vivid.ActorSystemOption{vivid.WithActorSystemRemoting(bind), vivid.WithActorSystemDefaultAskTimeout(20 * time.Second)}
				if p.pre == "peer-was-down" {
					// four retries, 100 ms doubling: a delivery is given up 1.5 s after its first attempt
					opts = append(opts, vivid.WithActorSystemRemotingOption(vivid.WithActorSystemRemotingReconnect(4, 100*time.Millisecond, time.Second, 2, false)))
				}
				if p.codec {
					opts = append(opts, vivid.WithActorSystemCodec(vcodec.UserCodec{}))
				}
				w := vsys.NewWorld(x, opts...)
				w.Quiet = true
				w.Start()
				return w
			}
			wa, wb := mk(addrA), mk(addrB)
			payload := func(s string) any {
				if p.codec {
					return &vcodec.UserMsg{A: 1, S: s}
				}
				return &vcodec.CustomMsg{N: 1, T: s}
			}
			// the target lives on A (local) or on B (remote); the caller always lives on A
			tw, taddr := wa, addrA
			if p.remote {
				tw, taddr = wb, addrB
			}
			var targetSaw, callerSaw, fwdSaw []string
			var killer string
			targetScript := func() *vsys.Script {
				return &vsys.Script{Name: "target",
					OnOther: func(a *vsys.Act, ctx vivid.ActorContext, m any) {
						if _, bad := m.(*vcodec.ShortTagMsg); bad {
							return // only a local target can see it at all; not part of the comparison
						}
						s := text(m)
						targetSaw = append(targetSaw, s)
						switch {
						case strings.HasPrefix(s, "ask-empty"):
							ctx.Reply(&vcodec.EmptyMsg{}) // a registered message without fields: an empty body on the wire
						case strings.HasPrefix(s, "ask"):
							ctx.Reply(payload("re:" + s))
						case strings.HasPrefix(s, "fail"):
							panic("target fails while serving a piped request")
						}
					},
					OnKill: func(a *vsys.Act, ctx vivid.ActorContext, m *vivid.OnKill) {
						if m.Killer != nil {
							killer = m.Killer.GetAddress() + m.Killer.GetPath()
						}
					}}
			}
			tw.SpawnRoot(targetScript())
			// forwarder for PipeTo: local to the caller, or on the other system
			fw := wa
			faddr := addrA
			if p.op == "pipe-remote-forwarder" || p.op == "pipe-empty-remote-forwarder" {
				fw, faddr = wb, addrB
			}
			fw.SpawnRoot(&vsys.Script{Name: "fwd", OnOther: func(a *vsys.Act, ctx vivid.ActorContext, m any) {
				if pr, ok := m.(*vivid.PipeResult); ok {
					e := ""
					if pr.Error != nil {
						e = "ERR"
					}
					fwdSaw = append(fwdSaw, text(pr.Message)+"/"+e)
				}
			}})
			target, _ := wa.Sys.CreateRef(taddr, "/target")
			fwdRef, _ := wa.Sys.CreateRef(faddr, "/fwd")
			var pingErr error
			var pinged, asked bool
			var onceBase int64
			wa.SpawnRoot(&vsys.Script{Name: "caller",
				OnMsg: func(a *vsys.Act, ctx vivid.ActorContext, m vsys.Msg) {
					switch m.ID {
					case "watch-kill":
						ctx.Watch(target)
						ctx.Kill(target, false, "c15")
					case "undecodable-tell":
						ctx.Tell(target, &vcodec.UnreadableMsg{N: 7})
					case "once-to-namesake":
						// the receiver lives on the other system under the SAME path as the owner of the job
						ns, _ := wa.Sys.CreateRef(addrB, "/caller")
						ctx.Scheduler().Once(ns, time.Second, payload("once-ns"), vivid.WithSchedulerReference("ns"))
					case "once-next-to-stuck":
						// four jobs whose receiver lives on a system that is down (each delivery attempt sits in the reconnect back-off
						// for a long time), and one job for the owner itself that becomes due while they are stuck
						dead, _ := wa.Sys.CreateRef("127.0.0.1:1999", "/nobody")
						for i := 0; i < 4; i++ {
							ctx.Scheduler().Once(dead, time.Second, payload("stuck"), vivid.WithSchedulerReference(fmt.Sprintf("stuck%d", i)))
						}
						ctx.Scheduler().Once(ctx.Ref(), 1500*time.Millisecond, payload("once-local"), vivid.WithSchedulerReference("local"))
						onceBase = vrt.Now()
					case "bad-tell":
						ctx.Tell(target, &vcodec.ShortTagMsg{Tag: strings.Repeat("t", 300)})
					case "tell":
						ctx.Tell(target, payload("hello"))
					case "ask":
						f := ctx.Ask(target, payload("ask-1"))
						vrt.Go("waiter", func() {
							v, err := f.Result()
							asked = true
							if err != nil {
								callerSaw = append(callerSaw, "ask-error:"+err.Error())
							} else {
								callerSaw = append(callerSaw, "reply:"+text(v))
							}
						})
					case "kill-long-reason":
						ctx.Kill(target, false, strings.Repeat("r", 300), "second part of the reason")
					case "pipe-empty", "pipe-empty-remote-forwarder":
						ctx.PipeTo(target, payload("ask-empty"), vivid.ActorRefs{fwdRef})
					case "kill":
						ctx.Kill(target, false, "c15")
					case "poison":
						ctx.Tell(target, payload("before-poison"))
						ctx.Kill(target, true, "c15")
					case "watch":
						ctx.Watch(target)
					case "unwatch":
						ctx.Unwatch(target)
					case "ping":
						_, pingErr = ctx.Ping(target, 5*time.Second)
						pinged = true
					case "pipe-ok":
						ctx.PipeTo(target, payload("ask-piped"), vivid.ActorRefs{fwdRef})
					case "pipe-err":
						ctx.PipeTo(target, payload("silent"), vivid.ActorRefs{fwdRef}, 2*time.Second)
					case "once":
						ctx.Scheduler().Once(target, time.Second, payload("once"), vivid.WithSchedulerReference("o"))
					case "loop":
						ctx.Scheduler().Loop(target, time.Second, payload("loop"), vivid.WithSchedulerReference("l"))
					}
				},
				OnOther: func(a *vsys.Act, ctx vivid.ActorContext, m any) {
					if s := text(m); s == "once-ns" {
						callerSaw = append(callerSaw, "scheduled:"+s)
					}
					if s := text(m); s == "once-local" {
						callerSaw = append(callerSaw, fmt.Sprintf("scheduled:%s@%v", s, time.Duration(vrt.Now()-onceBase)))
					}
				},
				OnKilled: func(a *vsys.Act, ctx vivid.ActorContext, m *vivid.OnKilled) {
					callerSaw = append(callerSaw, "OnKilled:"+m.Ref.GetAddress()+m.Ref.GetPath())
				}})
			// a second watcher with the SAME path on the other system
			var callerSawB []string
			targetFromB, _ := wb.Sys.CreateRef(taddr, "/target")
			wb.SpawnRoot(&vsys.Script{Name: "caller",
				OnMsg: func(a *vsys.Act, ctx vivid.ActorContext, m vsys.Msg) {
					switch m.ID {
					case "watch":
						ctx.Watch(targetFromB)
					case "unwatch":
						ctx.Unwatch(targetFromB)
					}
				},
				OnOther: func(a *vsys.Act, ctx vivid.ActorContext, m any) {
					if s := text(m); s == "once-ns" {
						callerSawB = append(callerSawB, "scheduled:"+s)
					}
				},
				OnKilled: func(a *vsys.Act, ctx vivid.ActorContext, m *vivid.OnKilled) {
					callerSawB = append(callerSawB, "OnKilled:"+m.Ref.GetAddress()+m.Ref.GetPath())
				}})
			vrt.QuiesceNoTimers()
			doB := func(id string) { wb.Sys.Tell(wb.Ref("/caller"), vsys.Msg{ID: id}) }
			caller := wa.Ref("/caller")
			do := func(id string) { wa.Sys.Tell(caller, vsys.Msg{ID: id}) }
			settle := func(d time.Duration) {
				vrt.SetHorizon(vrt.Now() + int64(d))
				vrt.AddTimer(int64(d), "settle", func() {})
				vrt.Quiesce()
				vrt.SetHorizon(0)
			}
			killedBase := 0
			killedEvents := func() int {
				n := -killedBase
				for _, pb := range tw.PubsOf("ActorKilledEvent") {
					if pb.Ref == "/target" {
						n++
					}
				}
				return n
			}
			where := "local"
			if p.remote {
				where = "remote"
			}
			if p.pre == "bad-tell" {
				do("bad-tell")
				settle(time.Second)
			}
			if p.pre == "undecodable-tell" {
				do("undecodable-tell")
				settle(time.Second)
			}
			if p.pre == "peer-was-down" {
				// the peer is unreachable for longer than the retry window: one message to it is given up. The operation under
				// test is then issued while the peer is still unreachable; the peer is back 300 ms later, well inside the window
				down := true
				nw.Refuse = func(to string, idx int) bool { return down && p.remote && to == addrB }
				for _, c := range nw.Conns {
					c.Break()
				}
				do("tell")
				settle(4 * time.Second)
				targetSaw, callerSaw, killer = nil, nil, ""
				vrt.AddTimer(int64(300*time.Millisecond), "peer-up", func() { down = false })
			}
			if p.pre == "reused-name" {
				do("tell")
				settle(time.Second)
				tw.Sys.Kill(tw.Ref("/target"), false, "driver")
				settle(time.Second)
				if _, err := tw.SpawnRoot(targetScript()); err != nil {
					x.Fail("harness", "re-spawn of target: %v", err)
				}
				settle(time.Second)
				targetSaw, callerSaw, killer = nil, nil, ""
				killedBase = 1
				// a reference that was used while the first actor lived stays bound to it (see C03); the comparison is about
				// reaching the actor that owns the name now, so the caller takes a fresh reference - for the local and the remote target alike
				target, _ = wa.Sys.CreateRef(taddr, "/target")
			}
			switch p.op {
			case "once-next-to-stuck":
				do("once-next-to-stuck")
				settle(40 * time.Second)
				if got := strings.Join(callerSaw, ","); got != "scheduled:once-local@1.5s" {
					x.Fail("scheduled-message-delivered", "a Once for the owner itself, due 1.5 s after it was scheduled while four deliveries to an unreachable system were stuck in their reconnect back-off: the owner saw %v, expected exactly one delivery at 1.5 s", callerSaw)
				}
			case "once-to-namesake":
				do("once-to-namesake")
				settle(3 * time.Second)
				if strings.Join(callerSawB, ",") != "scheduled:once-ns" || len(callerSaw) != 0 {
					x.Fail("scheduled-message-delivered", "Once to %s/caller scheduled by %s/caller (same path, other system): the receiver saw %v, the owner itself saw %v", addrB, addrA, callerSawB, callerSaw)
				}
			case "watch-kill":
				if p.pre == "first-contact" {
					// another actor of the same system contacts the same remote system for the first time at this very moment
					wa.SpawnRoot(&vsys.Script{Name: "other", OnMsg: func(a *vsys.Act, ctx vivid.ActorContext, m vsys.Msg) {
						r, _ := wa.Sys.CreateRef(taddr, "/fwd-nobody")
						ctx.Tell(r, payload("noise"))
					}})
					vrt.QuiesceNoTimers()
					wa.Sys.Tell(wa.Ref("/other"), vsys.Msg{ID: "go"})
				}
				do("watch-kill")
				settle(2 * time.Second)
				want := "OnKilled:" + taddr + "/target"
				if strings.Join(callerSaw, ",") != want {
					x.Fail("watch-delivers-onkilled", "Watch followed by Kill of a %s target from one handler: the watcher saw %v, expected [%s]", where, callerSaw, want)
				}
			case "watch2", "unwatch2a", "unwatch2b":
				do("watch")
				settle(time.Second)
				doB("watch")
				settle(time.Second)
				if p.op == "unwatch2a" {
					do("unwatch")
				}
				if p.op == "unwatch2b" {
					doB("unwatch")
				}
				settle(time.Second)
				tw.Sys.Kill(tw.Ref("/target"), false, "driver")
				settle(time.Second)
				want := "OnKilled:" + taddr + "/target"
				wantA, wantB := want, want
				if p.op == "unwatch2a" {
					wantA = ""
				}
				if p.op == "unwatch2b" {
					wantB = ""
				}
				if strings.Join(callerSaw, ",") != wantA || strings.Join(callerSawB, ",") != wantB {
					x.Fail("every-watcher-notified", "two watchers with the same path on different systems (%s/caller and %s/caller), target on %s, %s: the first saw %v (expected [%s]), the second saw %v (expected [%s])", addrA, addrB, taddr, p.op, callerSaw, wantA, callerSawB, wantB)
				}
			case "tell":
				do("tell")
				settle(time.Second)
				if strings.Join(targetSaw, ",") != "hello" {
					x.Fail("tell-delivers", "Tell to a %s target: it saw %v", where, targetSaw)
				}
			case "ask":
				do("ask")
				settle(time.Second)
				if !asked || strings.Join(callerSaw, ",") != "reply:re:ask-1" {
					x.Fail("ask-gets-reply", "Ask to a %s target completed=%v with %v (target saw %v)", where, asked, callerSaw, targetSaw)
				}
			case "pipe-empty", "pipe-empty-remote-forwarder":
				do(p.op)
				settle(time.Second)
				if strings.Join(fwdSaw, ",") != "*vcodec.EmptyMsg/" {
					x.Fail("pipe-forwards-result", "PipeTo a %s target that answers with a field-less registered message, forwarder on %s: it saw %v, expected the *vcodec.EmptyMsg", where, faddr, fwdSaw)
				}
			case "kill", "poison", "kill-long-reason":
				do(p.op)
				settle(time.Second)
				if killedEvents() != 1 {
					x.Fail("kill-terminates", "%s Kill of a %s target: it was reported terminated %d times (it saw %v)", p.op, where, killedEvents(), targetSaw)
				}
				if killer != addrA+"/caller" {
					x.Fail("kill-names-killer", "%s Kill of a %s target: OnKill.Killer was %q, expected %q", p.op, where, killer, addrA+"/caller")
				}
				if p.op == "poison" && strings.Join(targetSaw, ",") != "before-poison" {
					x.Fail("poison-after-backlog", "poison Kill of a %s target: it processed %v before dying", where, targetSaw)
				}
			case "watch", "unwatch":
				do("watch")
				settle(time.Second)
				if p.op == "unwatch" {
					do("unwatch")
					settle(time.Second)
				}
				tw.Sys.Kill(tw.Ref("/target"), false, "driver")
				settle(time.Second)
				want := "OnKilled:" + taddr + "/target"
				if p.op == "watch" && strings.Join(callerSaw, ",") != want {
					x.Fail("watch-delivers-onkilled", "watcher of a %s target saw %v when it died, expected [%s]", where, callerSaw, want)
				}
				if p.op == "unwatch" && len(callerSaw) != 0 {
					x.Fail("unwatch-stops-notice", "after Unwatch of a %s target the former watcher still saw %v", where, callerSaw)
				}
			case "ping":
				do("ping")
				settle(6 * time.Second)
				if !pinged || pingErr != nil {
					x.Fail("ping-returns-pong", "Ping of a %s target: returned=%v err=%v", where, pinged, pingErr)
				}
			case "pipe-ok", "pipe-remote-forwarder":
				do("pipe-ok")
				settle(time.Second)
				if strings.Join(fwdSaw, ",") != "re:ask-piped/" {
					x.Fail("pipe-forwards-result", "PipeTo a %s target with a forwarder on %s: forwarder saw %v (target saw %v)", where, faddr, fwdSaw, targetSaw)
				}
			case "pipe-err":
				do("pipe-err")
				settle(3 * time.Second)
				if strings.Join(fwdSaw, ",") != "<nil>/ERR" {
					x.Fail("pipe-forwards-failure", "PipeTo a %s target that never answers: forwarder saw %v, expected one failure result", where, fwdSaw)
				}
			case "once":
				do("once")
				settle(3 * time.Second)
				if strings.Join(targetSaw, ",") != "once" {
					x.Fail("scheduled-message-delivered", "Once to a %s receiver: it saw %v", where, targetSaw)
				}
			case "loop":
				do("loop")
				settle(3*time.Second + 500*time.Millisecond)
				if strings.Join(targetSaw, ",") != "loop,loop,loop" {
					x.Fail("scheduled-message-delivered", "Loop(1s) to a %s receiver for 3.5 s: it saw %v", where, targetSaw)
				}
			}
			for _, w := range []*vsys.World{wa, wb} {
				for _, pb := range w.Pubs {
					if pb.Type == "RemotingMessageDecodeFailedEvent" || pb.Type == "RemotingMessageSendFailedEvent" {
						if p.pre == "bad-tell" && strings.Contains(fmt.Sprintf("%+v", pb.Event), "ShortTagMsg") {
							continue // the one message that cannot be encoded
						}
						if p.pre == "undecodable-tell" && strings.Contains(fmt.Sprintf("%+v", pb.Event), "nreadable") {
							continue // the one message the receiving side cannot decode
						}
						x.Fail("no-codec-failure", "%s: %v", pb.Type, pb.Event)
					}
				}
			}
			x.Outcome(fmt.Sprintf("%v|%v|%v|%v", targetSaw, callerSaw, fwdSaw, callerSawB))
			x.Logf("target %v caller %v fwd %v", targetSaw, callerSaw, fwdSaw)
			vrt.Freeze()
			wa.Sys.Stop()
			wb.Sys.Stop()
			settle(time.Minute)
		},
	}
}

func build(tier string) []*vexp.Scenario {
	bounds := []int{0, 1}
	if tier == "thorough" {
		bounds = []int{0, 1, 2}
	}
	var out []*vexp.Scenario
	for _, op := range []string{"tell", "ask", "kill", "poison", "watch", "unwatch", "ping", "pipe-ok", "pipe-err", "pipe-remote-forwarder", "once", "loop"} {
		for _, remote := range []bool{false, true} {
			for _, codec := range []bool{false, true} {
				out = append(out, scenario(params{op: op, remote: remote, codec: codec}, bounds))
			}
		}
	}
	for _, op := range []string{"kill-long-reason", "pipe-empty", "pipe-empty-remote-forwarder"} {
		for _, remote := range []bool{false, true} {
			out = append(out, scenario(params{op: op, remote: remote}, []int{0}))
		}
	}
	for _, op := range []string{"watch2", "unwatch2a", "unwatch2b"} {
		for _, remote := range []bool{false, true} {
			out = append(out, scenario(params{op: op, remote: remote}, bounds))
		}
	}
	// the same operations on a name that has been used before (the first actor received mail, died, a new one took the name)
	for _, op := range []string{"tell", "ask", "kill", "watch", "ping", "pipe-ok"} {
		for _, remote := range []bool{false, true} {
			out = append(out, scenario(params{op: op, remote: remote, pre: "reused-name"}, []int{0}))
		}
	}
	// an order-dependent pair (Watch, then Kill) from one handler, alone and racing another actor's first contact with the peer
	for _, remote := range []bool{false, true} {
		out = append(out, scenario(params{op: "watch-kill", remote: remote}, bounds))
	}
	out = append(out, vexp.Split(8, func() *vexp.Scenario {
		return scenario(params{op: "watch-kill", remote: true, pre: "first-contact"}, []int{0, 1, 2})
	})...)
	out = append(out, scenario(params{op: "once-to-namesake", remote: true}, []int{0}))
	out = append(out, scenario(params{op: "once-next-to-stuck", remote: true}, []int{0}))
	// the same operations after the peer was unreachable for longer than the retry window, issued shortly before it is back
	for _, op := range []string{"tell", "ask", "kill", "watch", "ping", "pipe-ok", "pipe-remote-forwarder"} {
		for _, remote := range []bool{false, true} {
			out = append(out, scenario(params{op: op, remote: remote, pre: "peer-was-down"}, []int{0}))
		}
	}
	// the same operations with one short read anywhere in the byte streams (a healthy link may split the stream anywhere)
	for _, op := range []string{"ask", "kill", "watch", "ping", "pipe-remote-forwarder"} {
		out = append(out, scenario(params{op: op, remote: true, pre: "short-reads"}, []int{0, 1}))
	}
	// the same operations right after one message that the receiving side could not decode
	for _, op := range []string{"tell", "ask", "kill", "watch", "ping", "pipe-remote-forwarder"} {
		out = append(out, scenario(params{op: op, remote: true, pre: "undecodable-tell"}, []int{0}))
	}
	// the same operations right after one message was (legitimately) rejected by its writer
	for _, op := range []string{"tell", "ask", "kill", "watch", "ping", "pipe-ok", "pipe-remote-forwarder", "once"} {
		for _, remote := range []bool{false, true} {
			out = append(out, scenario(params{op: op, remote: remote, pre: "bad-tell"}, []int{0}))
		}
	}
	return out
}

func main() { vexp.Main("C15", "c15", build) }
