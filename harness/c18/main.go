// Harness c18: gossip converges. n real Systems with clustering enabled talk over the in-memory
// network on virtual time. Fault phase: crash (isolation) / restart / partition+heal of nodes at
// chosen instants; healing phase up to a horizon; oracle at the horizon.
package main

import (
	"fmt"
	"sort"
	"strings"
	"time"

	"github.com/kercylan98/vivid"
	"github.com/kercylan98/vivid/internal/actor"
	"github.com/kercylan98/vivid/internal/cluster"
	"github.com/kercylan98/vivid/internal/verif/vexp"
	"github.com/kercylan98/vivid/internal/verif/vnet"
	"github.com/kercylan98/vivid/internal/verif/vrt"
	"github.com/kercylan98/vivid/internal/verif/vsys"
)

func addr(i int) string { return fmt.Sprintf("127.0.0.1:%d", 2001+i) }

type fault struct {
	at   time.Duration
	kind string // crash | restart | restart-new-id | restart-moved | leave | partition | heal
	a, b int
}

type params struct {
	n       int
	seeds   string          // one | two | self | island (node 0: [0]; node 2: [2]; the others: [0, 2])
	offsets []time.Duration // start offset per node
	fd      time.Duration   // failure detection timeout (0 = off)
	confirm time.Duration   // suspect confirm duration
	faults  []fault
}

func (p params) name() string {
	var fs []string
	for _, f := range p.faults {
		fs = append(fs, fmt.Sprintf("%s(%d,%d)@%v", f.kind, f.a, f.b, f.at))
	}
	var os []string
	for _, o := range p.offsets {
		os = append(os, o.String())
	}
	return fmt.Sprintf("n=%d/seeds=%s/start=%s/fd=%v/confirm=%v/faults=%s", p.n, p.seeds, strings.Join(os, ","), p.fd, p.confirm, strings.Join(fs, "+"))
}

type node struct {
	i             int
	address       string
	nodeID        string
	w             *vsys.World
	running       bool
	left          bool // left the cluster gracefully, system still running
	leaveReturned bool
	gen           int // restarts
}

func scenario(p params, bounds []int) *vexp.Scenario {
	cfg := vsys.CoarseSends(3000000)
	cfg.SwitchOnNet = true
	return &vexp.Scenario{
		Name:   p.name(),
		Family: fmt.Sprintf("n=%d", p.n),
		Cfg:    cfg,
		Bounds: bounds,
		Setup:  func(x *vexp.X) { vsys.CoarseSetupSends() },
		Body: func(x *vexp.X) {
			nw := vnet.Reset()
			isolated := map[string]bool{} // crashed nodes: nobody reaches them, they reach nobody
			cutPairs := map[string]bool{} // partitioned pairs "a|b"
			// refusal needs the source of a dial: every thread and timer of a node carries the node's address as its tag (set on
			// the harness thread before the node is started, inherited from there), so the dialing node is the tag of the running code
			nw.Refuse = func(to string, idx int) bool {
				from := vrt.Tag()
				if isolated[to] || isolated[from] {
					return true
				}
				return cutPairs[from+"|"+to] || cutPairs[to+"|"+from]
			}
			var seeds []string
			switch p.seeds {
			case "one":
				seeds = []string{addr(0)}
			case "two":
				seeds = []string{addr(0), addr(1)}
			}
			nodes := make([]*node, p.n)
			start := func(i int, nodeID string, address string) {
				ss := seeds
				switch {
				case p.seeds == "self":
					ss = []string{addr(i)}
				case p.seeds == "island" && (i == 0 || i == 2):
					ss = []string{addr(i)}
				case p.seeds == "island":
					ss = []string{addr(0), addr(2)}
				}
				copts := []vivid.ClusterOption{vivid.WithClusterNodeID(nodeID), vivid.WithClusterName("c18"), vivid.WithClusterSeeds(ss),
					vivid.WithClusterDiscoveryInterval(time.Second), vivid.WithClusterFailureDetectionTimeout(p.fd), vivid.WithClusterSuspectConfirmDuration(p.confirm)}
				vrt.SetTag(address)
				w := vsys.NewWorld(x, vivid.WithActorSystemRemoting(address),
					vivid.WithActorSystemRemotingOption(vivid.WithActorSystemRemotingReconnect(1, 100*time.Millisecond, 200*time.Millisecond, 2, false), vivid.WithActorSystemRemotingClusterOption(copts...)),
					vivid.WithActorSystemDefaultAskTimeout(3*time.Second))
				w.Quiet = true
				gen := 0
				if nodes[i] != nil {
					gen = nodes[i].gen + 1
				}
				nodes[i] = &node{i: i, address: address, nodeID: nodeID, w: w, running: true, gen: gen}
				w.Start()
			}
			vrt.Tap("actor.(*Context).HandleEnvelop", func(args ...any) {
				// every envelope is handled by a thread of the system it belongs to (the tags below rely on it)
				if c := args[0].(*actor.Context); vrt.Tag() != c.Ref().GetAddress() {
					x.Fail("harness", "an envelope of %s is handled by a thread tagged %q", c.Ref().GetAddress(), vrt.Tag())
				}
			})
			vrt.Tap("remoting.(*Mailbox).Enqueue", func(args ...any) {})
			advanceTo := func(t time.Duration) {
				if time.Duration(vrt.Now()) >= t {
					return
				}
				vrt.SetHorizon(int64(t))
				vrt.AddTimer(int64(t)-vrt.Now(), "advance", func() {})
				vrt.Quiesce()
			}
			// "eventually absent and stays absent": from the moment a node is dead (crashed, left, replaced by a new incarnation) the
			// views of the running nodes are sampled every 250 ms; a view that has dropped the dead node and lists it again in the
			// last third of the healing phase has not settled (re-additions by a merge are silent: no event announces them, so
			// no-further-changes alone would not see a late flap). Earlier transients are within what "eventually" allows.
			stableFrom := time.Duration(-1)         // set when the healing phase is laid out
			deadSince := map[string]time.Duration{} // "id@address" -> when it died
			droppedAt := map[string]time.Duration{} // "observer|id@address" -> first sample without it
			reported := map[string]bool{}
			viewOf := func(nd *node) *cluster.ClusterView {
				c := actor.VerifCtxOf(nd.w.Sys, "/@cluster")
				if c == nil {
					return nil
				}
				na, ok := actor.VerifActorOf(c).(*cluster.NodeActor)
				if !ok {
					return nil
				}
				real, _ := cluster.VerifNodeView(na)
				if real == nil {
					return nil
				}
				return real.Snapshot()
			}
			sample := func() {
				if len(deadSince) == 0 {
					return
				}
				now := time.Duration(vrt.Now())
				for _, nd := range nodes {
					if nd == nil || !nd.running {
						continue
					}
					view := viewOf(nd)
					if view == nil {
						continue
					}
					listed := map[string]bool{}
					for _, m := range view.Members {
						listed[m.ID+"@"+m.Address] = true
					}
					for d := range deadSince {
						k := nd.address + "|" + d
						if !listed[d] {
							if _, ok := droppedAt[k]; !ok {
								droppedAt[k] = now
							}
						} else if at, ok := droppedAt[k]; ok && !reported[k] && stableFrom >= 0 && now >= stableFrom {
							reported[k] = true
							x.Fail("dead-member-removed", "node %s had dropped %s (dead since %v) from its view at %v but lists it again at %v, in the last third of the healing phase (from %v): it did not stay absent", nd.address, d, deadSince[d], at, now, stableFrom)
						}
					}
				}
			}
			advanceSampling := func(t time.Duration) {
				for len(deadSince) > 0 && time.Duration(vrt.Now())+250*time.Millisecond < t {
					advanceTo(time.Duration(vrt.Now()) + 250*time.Millisecond)
					sample()
				}
				advanceTo(t)
				sample()
			}
			breakConns := func(pred func(c *vnet.VConn) bool) {
				for _, c := range nw.Conns {
					if pred(c) {
						c.Break()
					}
				}
			}
			// timeline: starts and faults merged by time
			type step struct {
				at time.Duration
				do func()
			}
			var steps []step
			for i := 0; i < p.n; i++ {
				i := i
				steps = append(steps, step{p.offsets[i], func() { start(i, fmt.Sprintf("node-%d", i), addr(i)) }})
			}
			lastFault := time.Duration(0)
			for _, f := range p.faults {
				f := f
				if f.at > lastFault {
					lastFault = f.at
				}
				steps = append(steps, step{f.at, func() {
					switch f.kind {
					case "crash":
						isolated[addr(f.a)] = true
						nodes[f.a].running = false
						deadSince[nodes[f.a].nodeID+"@"+nodes[f.a].address] = f.at
						breakConns(func(c *vnet.VConn) bool { return true })
					case "restart", "restart-new-id", "restart-moved":
						// the old process dies, a new one comes up on the same address (restart-moved: same NodeID on a new address)
						old := nodes[f.a]
						isolated[old.address] = true
						breakConns(func(c *vnet.VConn) bool { return true })
						old.running = false
						vrt.SetTag(old.address)
						old.w.Sys.Stop(time.Second)
						id := fmt.Sprintf("node-%d", f.a)
						if f.kind == "restart-new-id" {
							id = fmt.Sprintf("node-%d-r%d", f.a, old.gen+1)
						}
						if f.kind == "restart-moved" {
							start(f.a, id, addr(f.a+10*(old.gen+1)))
						} else {
							isolated[old.address] = false
							start(f.a, id, old.address)
						}
						if oldKey := old.nodeID + "@" + old.address; oldKey != nodes[f.a].nodeID+"@"+nodes[f.a].address {
							deadSince[oldKey] = f.at // the previous incarnation, where it is distinguishable from the new one
						}
					case "leave":
						// graceful leave through the public API; the node's actor system keeps running (and keeps answering the
						// network): whatever of its cluster machinery survives the leave stays observable by the others
						nd := nodes[f.a]
						nd.running = false
						nd.left = true
						deadSince[nd.nodeID+"@"+nd.address] = f.at
						vrt.SetTag(nd.address)
						if cc := nd.w.Sys.Cluster(); cc != nil {
							// Leave blocks until the node has announced its departure, which takes (virtual) time when the node is
							// in the middle of a join attempt: the call runs on its own thread while the harness thread moves time on
							vrt.Go("leave", func() {
								cc.Leave()
								nd.leaveReturned = true
							})
						}
					case "partition":
						cutPairs[addr(f.a)+"|"+addr(f.b)] = true
						breakConns(func(c *vnet.VConn) bool { return true })
					case "heal":
						delete(cutPairs, addr(f.a)+"|"+addr(f.b))
						delete(cutPairs, addr(f.b)+"|"+addr(f.a))
					}
				}})
			}
			sort.SliceStable(steps, func(i, j int) bool { return steps[i].at < steps[j].at })
			for _, s := range steps {
				advanceSampling(s.at)
				s.do()
			}
			// healing phase
			horizon := 20 * time.Second
			if 5*p.fd > horizon {
				horizon = 5 * p.fd
			}
			endAt := lastFault + horizon
			var maxOff time.Duration
			seedLate := false
			for i, o := range p.offsets {
				if o > maxOff {
					maxOff = o
				}
				if i > 0 && p.offsets[0] > o {
					seedLate = true
				}
			}
			if seedLate {
				// nodes that started before their seed are in their join back-off (2, 4, 8, 16, 30 s): the next attempt after the
				// seed is up may be up to 30 s away; the healing phase is counted from there
				maxOff += 32 * time.Second
			}
			if mx := maxOff + horizon; mx > endAt {
				endAt = mx
			}
			stableFrom = endAt - horizon/3
			advanceSampling(endAt)
			// ---------------- oracle at the horizon ----------------
			type viewSum struct {
				members string // what the view says about the running nodes
				leader  string // leader among them
				self    string
			}
			var running []int
			var wantMembers []string
			live := map[string]bool{} // "id@address" of the running nodes
			for _, nd := range nodes {
				if nd.running {
					running = append(running, nd.i)
					wantMembers = append(wantMembers, nd.nodeID+"@"+nd.address)
					live[nd.nodeID+"@"+nd.address] = true
				}
			}
			sort.Strings(wantMembers)
			// A view may still hold entries of nodes that no longer run (a crashed node, a previous incarnation).
			// That is judged once, by dead-member-removed. The agreement rules are then judged on what the views say
			// about the RUNNING nodes (membership, and the leader computed among them), so that they do not merely
			// repeat that verdict and stay sensitive to everything else.
			var sums []viewSum
			anyDead := false
			for _, i := range running {
				nd := nodes[i]
				c := actor.VerifCtxOf(nd.w.Sys, "/@cluster")
				if c == nil {
					x.Fail("harness", "node %d has no cluster actor", i)
					continue
				}
				na, ok := actor.VerifActorOf(c).(*cluster.NodeActor)
				if !ok {
					x.Fail("harness", "unexpected cluster actor type")
					continue
				}
				real, _ := cluster.VerifNodeView(na)
				view := real.Snapshot()
				var ms, dead []string
				for id, m := range view.Members {
					key := m.ID + "@" + m.Address
					if !live[key] {
						dead = append(dead, key)
						delete(view.Members, id)
						continue
					}
					st := ""
					if m.Status != cluster.MemberStatusUp {
						st = fmt.Sprintf("!status=%d", m.Status) // a running node that somebody does not consider Up
						x.Fail("running-members-are-up", "at the horizon node %s lists the running node %s with status %d (not Up)", nd.address, key, m.Status)
					}
					ms = append(ms, fmt.Sprintf("%s#g%d.c%d%s", key, m.Generation, m.LogicalClock, st))
				}
				sort.Strings(ms)
				sort.Strings(dead)
				if len(dead) > 0 {
					anyDead = true
					x.Fail("dead-member-removed", "at the horizon node %s still lists %v, which are not running (running: %v)", nd.address, dead, wantMembers)
				}
				sums = append(sums, viewSum{strings.Join(ms, " "), cluster.ComputeLeaderAddr(view), nd.address})
			}
			_ = anyDead
			if len(sums) > 0 {
				leaders := 0
				for _, s := range sums {
					if s.members != sums[0].members {
						x.Fail("same-membership", "at the horizon node %s sees [%s] but node %s sees [%s] (entries of nodes that are not running left out)", s.self, s.members, sums[0].self, sums[0].members)
					}
					if s.leader != sums[0].leader {
						x.Fail("same-leader", "at the horizon node %s computes leader %q but node %s computes %q (among the running nodes)", s.self, s.leader, sums[0].self, sums[0].leader)
					}
					if s.leader == s.self {
						leaders++
					}
					var keys []string
					for _, m := range strings.Fields(s.members) {
						keys = append(keys, m[:strings.IndexByte(m, '#')])
					}
					sort.Strings(keys)
					if strings.Join(keys, " ") != strings.Join(wantMembers, " ") {
						x.Fail("exactly-the-live-nodes", "at the horizon node %s lists %v of the running nodes %v", s.self, keys, wantMembers)
					}
				}
				if leaders != 1 {
					x.Fail("exactly-one-leader", "at the horizon %d of the running nodes consider themselves leader (views: %v)", leaders, sums)
				}
			}
			for _, nd := range nodes {
				if nd.left && !nd.leaveReturned {
					x.Fail("leave-returns", "Leave() on node %s has not returned %v after it was called", nd.address, horizon)
				}
			}
			// stability: nothing announced in the last third of the healing phase
			quietFrom := int64(endAt - horizon/3)
			for _, i := range running {
				for _, pb := range nodes[i].w.Pubs {
					if (pb.Type == "ClusterMembersChangedEvent" || pb.Type == "ClusterLeaderChangedEvent") && pb.At >= quietFrom {
						x.Fail("no-further-changes", "node %s still announced %s at %v (healing phase ends at %v, faults stopped at %v)", nodes[i].address, pb.Type, time.Duration(pb.At), endAt, lastFault)
						break
					}
				}
			}
			vrt.Freeze() // tear-down schedules are not explored
			var oc []string
			for _, s := range sums {
				oc = append(oc, s.self+"=>"+s.members+"/L="+s.leader)
			}
			x.Outcome(strings.Join(oc, " ; "))
			x.Logf("%s", strings.Join(oc, " ; "))
			vrt.SetHorizon(vrt.Now() + int64(time.Minute)) // stopping an isolated node takes (virtual) time: retries, timeouts
			for _, nd := range nodes {
				vrt.SetTag(nd.address)
				nd.w.Sys.Stop(time.Second)
			}
			vrt.Quiesce()
		},
	}
}

func build(tier string) []*vexp.Scenario {
	s := time.Second
	ms := time.Millisecond
	b0 := []int{0}
	b1 := []int{0, 1}
	_ = b1
	var out []*vexp.Scenario
	add := func(p params, b []int) { out = append(out, scenario(p, b)) }
	offs := []time.Duration{0, 300 * ms, 700 * ms}
	// healthy clusters, no faults: must converge and then stay quiet. Every combination of start offsets.
	for _, fd := range []time.Duration{4 * s, 0, 40 * s} {
		for _, seeds := range []string{"one", "two"} {
			for _, o1 := range offs {
				for _, o2 := range offs {
					if fd != 4*s && !(o1 == 0 && o2 == 300*ms) {
						continue
					}
					add(params{n: 2, seeds: seeds, offsets: []time.Duration{o1, o2}, fd: fd}, b0)
					for _, o3 := range offs {
						if fd != 4*s && o3 != 700*ms {
							continue
						}
						add(params{n: 3, seeds: seeds, offsets: []time.Duration{o1, o2, o3}, fd: fd}, b0)
					}
				}
			}
		}
	}
	add(params{n: 2, seeds: "one", offsets: []time.Duration{0, 300 * ms}, fd: 4 * s, confirm: 2 * s}, b0)
	add(params{n: 3, seeds: "two", offsets: []time.Duration{0, 300 * ms, 700 * ms}, fd: 4 * s, confirm: 2 * s}, b0)
	// schedule deviations on the smallest healthy cluster
	add(params{n: 2, seeds: "one", offsets: []time.Duration{0, 0}, fd: 4 * s}, b1)
	// ... and on three nodes joining at the same instant (tree split over workers)
	out = append(out, vexp.Split(12, func() *vexp.Scenario {
		return scenario(params{n: 3, seeds: "one", offsets: []time.Duration{0, 0, 0}, fd: 4 * s}, b1)
	})...)
	// the seed comes up several seconds after the nodes that want to join through it: their first attempts (the initial one and
	// the retries 2 s, 4 s, ... later) fail, a later one must succeed
	for _, late := range []time.Duration{3 * s, 5 * s, 9 * s, 13 * s} {
		add(params{n: 2, seeds: "one", offsets: []time.Duration{late, 0}, fd: 4 * s}, b0)
		add(params{n: 3, seeds: "one", offsets: []time.Duration{late, 0, 300 * ms}, fd: 4 * s}, b0)
		add(params{n: 3, seeds: "two", offsets: []time.Duration{late, late + s, 0}, fd: 0}, b0)
	}
	// a self-seeded island that only learns of the others when they contact it (and the other way round), started late
	for _, fd := range []time.Duration{4 * s, 0} {
		for _, late := range []time.Duration{700 * ms, 3 * s, 6 * s} {
			add(params{n: 3, seeds: "island", offsets: []time.Duration{0, 300 * ms, late}, fd: fd}, b0)
		}
	}
	// one fault (or a partition + its heal), at several instants
	std := []time.Duration{0, 300 * ms, 700 * ms}
	for _, at := range []time.Duration{3 * s, 5 * s, 7500 * ms} {
		for _, seeds := range []string{"one", "two"} {
			add(params{n: 3, seeds: seeds, offsets: std, fd: 4 * s, faults: []fault{{at, "crash", 2, 0}}}, b0)
			add(params{n: 3, seeds: seeds, offsets: std, fd: 4 * s, faults: []fault{{at, "restart", 2, 0}}}, b0)
			add(params{n: 3, seeds: seeds, offsets: std, fd: 4 * s, faults: []fault{{at, "restart-new-id", 2, 0}}}, b0)
			add(params{n: 3, seeds: seeds, offsets: std, fd: 4 * s, faults: []fault{{at, "partition", 1, 2}, {at + 10*s, "heal", 1, 2}}}, b0)
			add(params{n: 3, seeds: seeds, offsets: std, fd: 4 * s, faults: []fault{{at, "partition", 0, 2}, {at + 3*s, "heal", 0, 2}}}, b0)
			add(params{n: 2, seeds: seeds, offsets: std[:2], fd: 4 * s, faults: []fault{{at, "partition", 0, 1}, {at + 10*s, "heal", 0, 1}}}, b0)
			add(params{n: 2, seeds: seeds, offsets: std[:2], fd: 4 * s, faults: []fault{{at, "restart", 1, 0}}}, b0)
			add(params{n: 2, seeds: seeds, offsets: std[:2], fd: 4 * s, faults: []fault{{at, "crash", 1, 0}}}, b0)
			// failure detection off: a restarted node must replace its previous incarnation through generation / NodeID alone
			add(params{n: 3, seeds: seeds, offsets: std, fd: 0, faults: []fault{{at, "restart", 2, 0}}}, b0)
			add(params{n: 3, seeds: seeds, offsets: std, fd: 0, faults: []fault{{at, "restart-moved", 2, 0}}}, b0)
			add(params{n: 3, seeds: seeds, offsets: std, fd: 4 * s, faults: []fault{{at, "restart-moved", 2, 0}}}, b0)
			add(params{n: 3, seeds: seeds, offsets: std, fd: 0, faults: []fault{{at, "restart-moved", 2, 0}, {at + 4*s, "restart-moved", 2, 0}}}, b0)
		}
	}
	// graceful leave while the leaver's actor system keeps running: the node must disappear from every view and stay away (several
	// failure-detection timeouts are waited out), also when it leaves before it ever managed to join
	for _, at := range []time.Duration{3 * s, 5 * s, 7500 * ms} {
		for _, seeds := range []string{"one", "two"} {
			add(params{n: 2, seeds: seeds, offsets: std[:2], fd: 4 * s, faults: []fault{{at, "leave", 1, 0}}}, b0)
			add(params{n: 3, seeds: seeds, offsets: std, fd: 4 * s, faults: []fault{{at, "leave", 2, 0}}}, b0)
			add(params{n: 3, seeds: seeds, offsets: std, fd: 0, faults: []fault{{at, "leave", 2, 0}}}, b0)
		}
		add(params{n: 2, seeds: "one", offsets: std[:2], fd: 4 * s, faults: []fault{{at, "leave", 0, 0}}}, b0)
		add(params{n: 2, seeds: "one", offsets: []time.Duration{10 * s, 0}, fd: 4 * s, faults: []fault{{at, "leave", 1, 0}}}, b0)
		add(params{n: 3, seeds: "one", offsets: []time.Duration{10 * s, 0, 300 * ms}, fd: 4 * s, faults: []fault{{at, "leave", 1, 0}}}, b0)
	}
	// suspicion without removal: SuspectConfirmDuration > 0 and a partition longer than the failure-detection timeout but shorter
	// than timeout + confirmation; the suspected nodes must be rehabilitated once they are heard again
	for _, at := range []time.Duration{3 * s, 5 * s} {
		for _, dur := range []time.Duration{5 * s, 6500 * ms} {
			add(params{n: 2, seeds: "one", offsets: std[:2], fd: 4 * s, confirm: 4 * s, faults: []fault{{at, "partition", 0, 1}, {at + dur, "heal", 0, 1}}}, b0)
			add(params{n: 3, seeds: "one", offsets: std, fd: 4 * s, confirm: 4 * s, faults: []fault{{at, "partition", 0, 2}, {at + dur, "heal", 0, 2}}}, b0)
			add(params{n: 3, seeds: "two", offsets: std, fd: 4 * s, confirm: 4 * s, faults: []fault{{at, "partition", 1, 2}, {at + dur, "heal", 1, 2}}}, b0)
			add(params{n: 3, seeds: "one", offsets: std, fd: 4 * s, confirm: 4 * s, faults: []fault{{at, "partition", 0, 2}, {at, "partition", 1, 2}, {at + dur, "heal", 0, 2}, {at + dur, "heal", 1, 2}}}, b0)
		}
	}
	if tier == "thorough" {
		add(params{n: 3, seeds: "one", offsets: []time.Duration{0, 0, 300 * ms}, fd: 4 * s}, b1)
		add(params{n: 2, seeds: "two", offsets: []time.Duration{0, 300 * ms}, fd: 4 * s, faults: []fault{{5 * s, "partition", 0, 1}, {9 * s, "heal", 0, 1}}}, b1)
		add(params{n: 4, seeds: "two", offsets: []time.Duration{0, 300 * ms, 700 * ms, s}, fd: 4 * s}, b0)
		add(params{n: 4, seeds: "one", offsets: []time.Duration{0, 300 * ms, 700 * ms, s}, fd: 4 * s, faults: []fault{{5 * s, "crash", 3, 0}, {8 * s, "restart", 2, 0}}}, b0)
		// the upper end of the quantifier (clusters of up to 7 nodes), one deterministic execution per fault timeline
		off7 := []time.Duration{0, 300 * ms, 700 * ms, s, 1300 * ms, 1700 * ms, 2 * s}
		for _, n := range []int{5, 6, 7} {
			for _, seeds := range []string{"one", "two"} {
				add(params{n: n, seeds: seeds, offsets: off7[:n], fd: 4 * s}, b0)
				add(params{n: n, seeds: seeds, offsets: off7[:n], fd: 4 * s, faults: []fault{{6 * s, "partition", 1, n - 1}, {16 * s, "heal", 1, n - 1}}}, b0)
				add(params{n: n, seeds: seeds, offsets: off7[:n], fd: 4 * s, faults: []fault{{6 * s, "restart", n - 1, 0}}}, b0)
				add(params{n: n, seeds: seeds, offsets: off7[:n], fd: 0, faults: []fault{{6 * s, "restart-moved", n - 1, 0}}}, b0)
			}
		}
	}
	return out
}

func main() { vexp.Main("C18", "c18", build) }
