// Harness c06: killing an actor terminates its whole subtree, children first, once each.
// Real actor.System; switches between messages and at every mailbox Enqueue.
package main

import (
	"fmt"
	"sort"
	"strings"
	"time"

	"github.com/kercylan98/vivid"
	"github.com/kercylan98/vivid/internal/actor"
	"github.com/kercylan98/vivid/internal/verif/vexp"
	"github.com/kercylan98/vivid/internal/verif/vrt"
	"github.com/kercylan98/vivid/internal/verif/vsys"
	"github.com/kercylan98/vivid/pkg/ves"
)

// tree shapes: path -> children
var shapes = map[string][]string{
	"single": {"/x"},
	"chain3": {"/x", "/x/y", "/x/y/z"},
	"fan":    {"/x", "/x/c1", "/x/c2"},
	"mixed":  {"/x", "/x/a", "/x/a/g", "/x/b"},
}

type params struct {
	shape   string
	target  string
	poison  bool
	extra   string // none | same | ancestor | descendant   (a second kill from another thread)
	watch   string // none | early | twice | late | unwatch | parent-watch
	respawn string // none | onkill-spawn | onkilled-respawn | outsider-actorof | late-spawn-during-stop (an outside goroutine spawns a top-level actor while the whole system is being stopped)
	owns    bool   // dying actors own a subscription and a Loop job
	fails   string // "" | while-draining: the first child of the target is busy with mail queued behind, one of which makes it fail after the target has begun to stop
}

func (p params) name() string {
	n := fmt.Sprintf("%s/kill=%s/poison=%v/extra=%s/watch=%s/respawn=%s/owns=%v", p.shape, p.target, p.poison, p.extra, p.watch, p.respawn, p.owns)
	if p.fails != "" {
		n += "/fails=" + p.fails
	}
	return n
}

func under(path, root string) bool { return path == root || strings.HasPrefix(path, root+"/") }

func parentOf(path string) string {
	i := strings.LastIndex(path, "/")
	if i <= 0 {
		return "/"
	}
	return path[:i]
}

type tick struct{}
type tock struct{} // a second event type; every owner subscribes to it and then explicitly unsubscribes from a third one
type tack struct{}

func scenario(p params, bounds []int) *vexp.Scenario {
	return &vexp.Scenario{
		Name:   p.name(),
		Family: p.shape,
		Cfg:    vsys.CoarseSends(120000),
		Bounds: bounds,
		Setup:  func(x *vexp.X) { vsys.CoarseSetupSends() },
		Body: func(x *vexp.X) {
			var sysOpts []vivid.ActorSystemOption
			if p.fails == "on-child-death" {
				// whatever the killed actor's handler does while it is stopping, the system's strategy (Restart) must not bring it back
				sysOpts = append(sysOpts, vivid.WithActorSystemSupervisionStrategy(vivid.OneForOneStrategy(vivid.SupervisionStrategyDecisionMakerFN(
					func(vivid.SupervisionContext) (vivid.SupervisionDecision, string) {
						return vivid.SupervisionDecisionRestart, "scripted"
					}))))
			}
			w := vsys.NewWorld(x, sysOpts...)
			w.Quiet = true
			w.Start()
			nodes := shapes[p.shape]
			scripts := map[string]*vsys.Script{}
			respawned := 0
			failer, released := "", false
			if p.fails == "while-draining" {
				for _, n := range nodes {
					if parentOf(n) == p.target {
						failer = n
						break
					}
				}
			}
			for ni, n := range nodes {
				n, ni := n, ni
				s := &vsys.Script{Name: n[strings.LastIndex(n, "/")+1:]}
				if p.owns {
					s.Launch = func(a *vsys.Act, ctx vivid.ActorContext) {
						ctx.EventStream().Subscribe(ctx, tick{})
						if ni%2 == 1 {
							// every second actor holds exactly one type and "leaves" two it never held: one that other actors
							// hold, one that nobody holds; its single subscription has to survive that and die with the actor
							ctx.EventStream().Unsubscribe(ctx, tock{})
							ctx.EventStream().Unsubscribe(ctx, tack{})
						} else {
							ctx.EventStream().Subscribe(ctx, tock{})
							// a type nobody else holds: this actor is its last subscriber when it explicitly leaves it again
							ctx.EventStream().Subscribe(ctx, tack{})
							ctx.EventStream().Unsubscribe(ctx, tack{})
						}
						ctx.Scheduler().Loop(ctx.Ref(), time.Second, vsys.Msg{ID: "loop"}, vivid.WithSchedulerReference("L"))
						// ... and a Once job that has already fired when the actor dies (its key sorts before the Loop's)
						ctx.Scheduler().Once(ctx.Ref(), time.Millisecond, vsys.Msg{ID: "once"}, vivid.WithSchedulerReference("A"))
						ctx.Scheduler().Loop(ctx.Ref(), time.Second, vsys.Msg{ID: "loop"}, vivid.WithSchedulerReference("Z"))
						// ... and a reference registered a second time while its first job is live (refused or ignored: the first job stands)
						ctx.Scheduler().Loop(ctx.Ref(), time.Second, vsys.Msg{ID: "loop"}, vivid.WithSchedulerReference("L"))
					}
				}
				if p.respawn == "onkill-spawn" && n == p.target {
					s.OnKill = func(a *vsys.Act, ctx vivid.ActorContext, m *vivid.OnKill) {
						a.SpawnChild(ctx, &vsys.Script{Name: "late"})
					}
				}
				if p.fails == "on-child-death" && n == p.target {
					// the handler of the killed actor panics on the termination notice of the first of its children to die
					panicked := false
					s.OnKilled = func(a *vsys.Act, ctx vivid.ActorContext, m *vivid.OnKilled) {
						if !panicked && parentOf(m.Ref.GetPath()) == p.target {
							panicked = true
							panic("scripted panic on a child's termination notice while stopping")
						}
					}
				}
				if n == failer {
					s.OnMsg = func(a *vsys.Act, ctx vivid.ActorContext, m vsys.Msg) {
						switch m.ID {
						case "hold":
							vrt.Block(vrt.KYield, 0, "held handler of "+failer, func() bool { return released })
						case "boom":
							panic("scripted failure while draining")
						}
					}
				}
				scripts[n] = s
			}
			for _, n := range nodes {
				if par := parentOf(n); par != "/" {
					scripts[par].Children = append(scripts[par].Children, scripts[n])
				}
			}
			if p.respawn == "onkilled-respawn" && parentOf(p.target) != "/" {
				ps := scripts[parentOf(p.target)]
				ps.OnKilled = func(a *vsys.Act, ctx vivid.ActorContext, m *vivid.OnKilled) {
					if m.Ref.GetPath() == p.target && respawned == 0 {
						respawned++
						// reported terminated => the path is released and the name can be reused at once
						if _, err := ctx.System().FindActor("localhost" + p.target); err == nil {
							x.Fail("path-released", "parent received OnKilled(%s) but FindActor still finds it", p.target)
						}
						if _, err := a.SpawnChild(ctx, scripts[p.target]); err != nil {
							x.Fail("name-reusable", "parent received OnKilled(%s) but re-spawning the same name failed: %v", p.target, err)
						}
					}
				}
			}
			// watchers live outside the subtree
			mkWatcher := func(name string) *vsys.Script { return &vsys.Script{Name: name} }
			if _, err := w.SpawnRoot(scripts["/x"]); err != nil {
				x.Fail("harness", "spawn: %v", err)
				return
			}
			if p.owns {
				// let the Once jobs fire (10 ms of virtual time; the Loops have a period of 1 s)
				vrt.SetHorizon(vrt.Now() + int64(10*time.Millisecond))
				vrt.Quiesce()
				vrt.SetHorizon(0)
			}
			tref := w.Ref(p.target)
			var watcherPaths []string
			addWatcher := func(name string, script func(a *vsys.Act, ctx vivid.ActorContext, m vsys.Msg)) {
				s := mkWatcher(name)
				s.OnMsg = script
				w.SpawnRoot(s)
				watcherPaths = append(watcherPaths, "/"+name)
			}
			onWatchMsg := func(a *vsys.Act, ctx vivid.ActorContext, m vsys.Msg) {
				switch m.ID {
				case "watch":
					ctx.Watch(tref)
				case "unwatch":
					ctx.Unwatch(tref)
				}
			}
			expectNotices := map[string][2]int{} // watcher path -> [min,max] OnKilled(target)
			switch p.watch {
			case "early":
				addWatcher("w1", onWatchMsg)
				expectNotices["/w1"] = [2]int{1, 1}
				if p.target == "/x" {
					// watchers whose own path merely BEGINS with the target's path (they are not its descendants) and one nested elsewhere
					for _, n := range []string{"x0", "x-2"} {
						addWatcher(n, onWatchMsg)
						expectNotices["/"+n] = [2]int{1, 1}
					}
				}
			case "twice":
				addWatcher("w1", onWatchMsg)
				expectNotices["/w1"] = [2]int{1, 1}
			case "late":
				addWatcher("w1", onWatchMsg)
				expectNotices["/w1"] = [2]int{0, 1}
			case "unwatch":
				addWatcher("w1", onWatchMsg)
				expectNotices["/w1"] = [2]int{0, 0}
			}
			vrt.QuiesceNoTimers()
			switch p.watch {
			case "early":
				for wp := range expectNotices {
					w.Sys.Tell(w.Ref(wp), vsys.Msg{ID: "watch"})
				}
			case "twice":
				w.Sys.Tell(w.Ref("/w1"), vsys.Msg{ID: "watch"})
				w.Sys.Tell(w.Ref("/w1"), vsys.Msg{ID: "watch"})
			case "unwatch":
				w.Sys.Tell(w.Ref("/w1"), vsys.Msg{ID: "watch"})
				w.Sys.Tell(w.Ref("/w1"), vsys.Msg{ID: "unwatch"})
			}
			vrt.QuiesceNoTimers()
			// the kill(s)
			if p.extra != "none" {
				var et string
				switch p.extra {
				case "same":
					et = p.target
				case "ancestor":
					et = parentOf(p.target)
				case "descendant":
					for _, n := range nodes {
						if under(n, p.target) && n != p.target {
							et = n
							break
						}
					}
				}
				if et != "" && et != "/" {
					er := w.Ref(et)
					vrt.Go("killer2", func() { w.Sys.Kill(er, false, "second") })
				}
			}
			if p.watch == "late" {
				vrt.Go("late-watcher", func() { w.Sys.Tell(w.Ref("/w1"), vsys.Msg{ID: "watch"}) })
			}
			if p.respawn == "outsider-actorof" && p.target == "/x" {
				vrt.Go("spawner", func() {
					if _, err := w.SpawnRoot(&vsys.Script{Name: "x"}); err != nil {
						x.Logf("outsider ActorOf(x): %v", err)
					}
				})
			}
			if failer != "" {
				// the child is inside a handler with a failing message queued behind it; its parent is then told to stop (a poison
				// kill reaches the child behind that message), and only then does the child get to the failing message: the
				// decision about its failure (the default: stop) is taken by a supervisor that is itself stopping
				w.Sys.Tell(w.Ref(failer), vsys.Msg{ID: "hold"})
				vrt.QuiesceNoTimers()
				w.Sys.Tell(w.Ref(failer), vsys.Msg{ID: "boom"})
			}
			w.Sys.Kill(tref, p.poison, "driver")
			vrt.QuiesceNoTimers()
			if failer != "" {
				released = true
				vrt.QuiesceNoTimers()
			}

			// ---------------- oracle ----------------
			killRoot := p.target
			if p.extra == "ancestor" && parentOf(p.target) != "/" {
				killRoot = parentOf(p.target)
			}
			killedAt := map[string][]int{}
			for _, pb := range w.PubsOf("ActorKilledEvent") {
				killedAt[pb.Ref] = append(killedAt[pb.Ref], pb.Seq)
			}
			sysd := actor.VerifSys(w.Sys)
			reg := map[string]bool{}
			for _, r := range sysd.Registry {
				reg[r] = true
			}
			expectDead := func(n string) bool { return under(n, killRoot) }
			all := append([]string(nil), nodes...)
			sort.Strings(all)
			for _, n := range all {
				k := killedAt[n]
				reuse := (p.respawn == "onkilled-respawn" && under(n, p.target) && parentOf(p.target) != "/" && killRoot == p.target) ||
					(p.respawn == "outsider-actorof" && n == "/x")
				if expectDead(n) {
					if len(k) != 1 && !reuse {
						x.Fail("terminated-exactly-once", "%s is in the killed subtree of %s but was reported terminated %d times", n, killRoot, len(k))
					}
					if len(k) == 0 {
						continue
					}
					for _, m := range all {
						if m != n && under(m, n) && len(killedAt[m]) > 0 && killedAt[m][0] > k[0] {
							x.Fail("children-first", "%s was reported terminated before its descendant %s", n, m)
						}
					}
					if !reuse {
						if reg[n] {
							x.Fail("path-released", "%s terminated but is still registered", n)
						}
						if _, err := w.Sys.FindActor("localhost" + n); err == nil {
							x.Fail("path-released", "%s terminated but FindActor still finds it", n)
						}
					}
					// parent notice
					if par := parentOf(n); par != "/" {
						cnt := 0
						for _, en := range w.EntriesOf(par) {
							if en.Type == "OnKilled" && en.Detail == n {
								cnt++
							}
						}
						if cnt != len(k) {
							x.Fail("parent-notified-once", "%s terminated %dx but its parent saw OnKilled(%s) %d times", n, len(k), n, cnt)
						}
					}
				} else {
					if len(k) != 0 {
						x.Fail("outside-untouched", "%s is outside the killed subtree of %s but was reported terminated", n, killRoot)
					}
					for _, en := range w.EntriesOf(n) {
						if en.Type == "OnKill" {
							x.Fail("outside-untouched", "%s is outside the killed subtree but saw OnKill", n)
						}
					}
				}
			}
			// a termination notice, to whomever, comes only after the actor and all its descendants have been reported terminated
			for _, en := range w.Entries {
				if en.Type != "OnKilled" || en.Detail == en.Actor {
					continue
				}
				for _, n := range all {
					if under(n, en.Detail) && under(n, killRoot) {
						if k := killedAt[n]; len(k) == 0 || k[0] > en.Seq {
							x.Fail("notice-after-termination", "%s received OnKilled(%s) before %s was reported terminated (the notice must follow the termination of the whole subtree)", en.Actor, en.Detail, n)
						}
					}
				}
			}
			for wp, mm := range expectNotices {
				cnt := 0
				for _, en := range w.EntriesOf(wp) {
					if en.Type == "OnKilled" && en.Detail == p.target {
						cnt++
					}
				}
				if cnt < mm[0] || cnt > mm[1] {
					x.Fail("watcher-notified-once", "watcher %s (%s) saw OnKilled(%s) %d times, expected %d..%d", wp, p.watch, p.target, cnt, mm[0], mm[1])
				}
			}
			if p.respawn == "onkill-spawn" {
				late := p.target + "/late"
				if len(killedAt[late]) != 1 || reg[late] {
					x.Fail("spawn-while-dying-dies-too", "%s was spawned by the dying actor in its OnKill handler: terminated %d times, registered=%v", late, len(killedAt[late]), reg[late])
				}
				if len(killedAt[late]) > 0 && len(killedAt[p.target]) > 0 && killedAt[late][0] > killedAt[p.target][0] {
					x.Fail("children-first", "%s reported terminated before its child %s", p.target, late)
				}
			}
			// released actors hold no subscription and no scheduled job
			for sub := range sysd.SubscriberTypes {
				if len(killedAt[sub]) > 0 && !reg[sub] {
					x.Fail("subscriptions-released", "terminated %s still has event-stream subscriptions %v", sub, sysd.SubscriberTypes[sub])
				}
			}
			for _, subs := range sysd.Subscribers {
				for _, sub := range subs {
					if len(killedAt[sub]) > 0 && !reg[sub] {
						x.Fail("subscriptions-released", "terminated %s is still in a subscriber table", sub)
					}
				}
			}
			nEntries := len(w.Entries)
			nDead := len(w.PubsOf("DeathLetterEvent"))
			if p.owns {
				// let three Loop periods pass: nothing may fire for released actors
				vrt.SetHorizon(vrt.Now() + int64(3500*time.Millisecond))
				vrt.Quiesce()
				vrt.SetHorizon(0)
				for _, en := range w.Entries[nEntries:] {
					if en.Type == "Msg" && en.Detail == "loop" && len(killedAt[en.Actor]) > 0 && !reg[en.Actor] {
						x.Fail("jobs-released", "terminated %s still received its Loop job", en.Actor)
					}
				}
				for _, pb := range w.PubsOf("DeathLetterEvent")[nDead:] {
					if strings.Contains(pb.Detail, "SchedulerMessage") || strings.Contains(pb.Detail, "loop") {
						x.Fail("jobs-released", "a scheduled job of a terminated actor still fires (dead letter %s)", pb.Detail)
					}
				}
				for _, c := range w.Ctxs {
					d := actor.VerifCtx(c)
					if d.State == 2 && len(d.Jobs) > 0 {
						x.Fail("jobs-released", "terminated %s still holds scheduler references %v", d.Path, d.Jobs)
					}
				}
				nDeadBeforePub := len(w.PubsOf("DeathLetterEvent"))
				w.Sys.EventStream().Publish(w.Sys, tick{})
				w.Sys.EventStream().Publish(w.Sys, tock{})
				vrt.QuiesceNoTimers()
				for _, pb := range w.PubsOf("DeathLetterEvent")[nDeadBeforePub:] {
					if strings.Contains(pb.Detail, "tick") || strings.Contains(pb.Detail, "tock") {
						x.Fail("subscriptions-released", "an event published after the termination was still routed to a terminated subscriber (dead letter %s)", pb.Detail)
					}
				}
				for _, en := range w.Entries[nEntries:] {
					if (strings.Contains(en.Type, "tick") || strings.Contains(en.Type, "tock")) && len(killedAt[en.Actor]) > 0 && !reg[en.Actor] {
						x.Fail("subscriptions-released", "terminated %s still received a published event", en.Actor)
					}
				}
			}
			// name reuse under the surviving parent
			if par := parentOf(killRoot); par == "/" && p.respawn != "outsider-actorof" {
				if _, err := w.SpawnRoot(&vsys.Script{Name: killRoot[1:]}); err != nil {
					x.Fail("name-reusable", "%s terminated but ActorOf with the same name fails: %v", killRoot, err)
				}
			}
			if p.respawn == "onkilled-respawn" && respawned == 1 && killRoot == p.target {
				// the replacement must die with its parent
				par := parentOf(p.target)
				w.Sys.Kill(w.Ref(par), p.poison, "driver-parent")
				vrt.QuiesceNoTimers()
				after := actor.VerifSys(w.Sys)
				for _, r := range after.Registry {
					if under(r, par) {
						x.Fail("subtree-terminated", "parent %s was killed after re-spawning %s in its OnKilled handler, but %s is still registered", par, p.target, r)
					}
				}
			}
			if p.respawn == "late-spawn-during-stop" {
				vrt.Go("late-spawner", func() {
					if _, err := w.SpawnRoot(&vsys.Script{Name: "late"}); err != nil {
						x.Logf("late ActorOf: %v", err)
					}
				})
			}
			w.Sys.Stop()
			vrt.QuiesceNoTimers()
			if reg := actor.VerifSys(w.Sys).Registry; len(reg) != 0 {
				x.Fail("subtree-terminated", "after System.Stop the registry still holds %v", reg)
			}
			vsys.CheckLifecycle(w)
			var ks []string
			for _, pb := range w.PubsOf("ActorKilledEvent") {
				ks = append(ks, pb.Ref)
			}
			x.Outcome(strings.Join(ks, ">") + "|" + w.Summary())
			x.Logf("killed order %v", ks)
			_ = ves.ActorKilledEvent{}
		},
	}
}

func build(tier string) []*vexp.Scenario {
	bounds := []int{0, 1}
	if tier == "thorough" {
		bounds = []int{0, 1, 2, 3}
	}
	var out []*vexp.Scenario
	fineBounds := []int{0, 1}
	add := func(p params) {
		out = append(out, scenario(p, bounds))
		// hybrid variant for the mixed tree: preemption at the lock / atomic operations of packages actor and mailbox
		if p.shape == "mixed" && !p.poison {
			out = append(out, vexp.Fine(scenario(p, fineBounds), "vivid/internal/actor.", "vivid/internal/mailbox."))
		}
	}
	shapeNames := []string{"single", "chain3", "fan", "mixed"}
	for _, sh := range shapeNames {
		for _, target := range shapes[sh] {
			for _, poison := range []bool{false, true} {
				base := params{shape: sh, target: target, poison: poison, extra: "none", watch: "none", respawn: "none"}
				add(base)
				for _, e := range []string{"same", "ancestor", "descendant"} {
					q := base
					q.extra = e
					if e == "ancestor" && parentOf(target) == "/" {
						continue
					}
					if e == "descendant" {
						has := false
						for _, n := range shapes[sh] {
							if n != target && under(n, target) {
								has = true
							}
						}
						if !has {
							continue
						}
					}
					add(q)
				}
				if sh == "mixed" || sh == "single" {
					for _, wt := range []string{"early", "twice", "late", "unwatch"} {
						q := base
						q.watch = wt
						add(q)
					}
				}
				q := base
				q.owns = true
				add(q)
				q = base
				q.respawn = "onkill-spawn"
				add(q)
				if parentOf(target) != "/" {
					q = base
					q.respawn = "onkilled-respawn"
					add(q)
				} else {
					q = base
					q.respawn = "outsider-actorof"
					// the re-spawn landing between the old actor's termination and its parent's bookkeeping needs two deviations (fix acbb5fd)
					out = append(out, scenario(q, []int{0, 1, 2}))
				}
			}
		}
	}
	// a descendant that fails on queued mail after its (poison-)killed parent has begun to stop
	for _, sh := range []string{"chain3", "mixed", "fan"} {
		for _, poison := range []bool{false, true} {
			out = append(out, scenario(params{shape: sh, target: "/x", poison: poison, extra: "none", watch: "none", respawn: "none", fails: "while-draining"}, bounds))
		}
	}
	out = append(out, scenario(params{shape: "chain3", target: "/x/y", poison: true, extra: "none", watch: "none", respawn: "none", fails: "while-draining"}, bounds))
	// the killed actor itself panics on the termination notice of the first of its (two or more) children to die; the strategy says Restart
	for _, sh := range []string{"fan", "mixed"} {
		for _, poison := range []bool{false, true} {
			out = append(out, scenario(params{shape: sh, target: "/x", poison: poison, extra: "none", watch: "none", respawn: "none", fails: "on-child-death"}, bounds))
		}
	}
	// a spawn racing the kill of its parent (here: the root, through System.Stop), message level and inside package actor
	for _, sh := range []string{"chain3", "mixed"} {
		q := params{shape: sh, target: shapes[sh][len(shapes[sh])-1], extra: "none", watch: "none", respawn: "late-spawn-during-stop"}
		out = append(out, scenario(q, []int{0, 1, 2}))
		out = append(out, vexp.Split(4, func() *vexp.Scenario {
			return vexp.Fine(scenario(q, []int{0, 1, 2}), "vivid/internal/actor.", "vivid/internal/mailbox.")
		})...)
	}
	return out
}

func main() { vexp.Main("C06", "c06", build) }
