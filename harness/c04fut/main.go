// Harness c04fut: the real future.Future alone under the fine-grained scheduler: completion by
// reply / second reply / timeout / Close(err) / Close(nil) racing PipeTo, Result and Wait from
// several threads.
package main

import (
	"errors"
	"fmt"
	"sort"
	"strings"
	"time"

	"github.com/kercylan98/vivid"
	"github.com/kercylan98/vivid/internal/actor"
	"github.com/kercylan98/vivid/internal/future"
	"github.com/kercylan98/vivid/internal/mailbox"
	"github.com/kercylan98/vivid/internal/verif/vexp"
	"github.com/kercylan98/vivid/internal/verif/vrt"
	"github.com/kercylan98/vivid/internal/verif/vsys"
	"github.com/kercylan98/vivid/pkg/log"
)

type told struct {
	to  string
	msg string
	err string
}

type liaison struct{ log []told }

func (l *liaison) Tell(r vivid.ActorRef, m vivid.Message) {
	pr, ok := m.(*vivid.PipeResult)
	if !ok {
		l.log = append(l.log, told{to: r.GetPath(), msg: fmt.Sprintf("%T", m)})
		return
	}
	l.log = append(l.log, told{to: r.GetPath(), msg: fmt.Sprint(pr.Message), err: errStr(pr.Error)})
}
func (l *liaison) Ask(vivid.ActorRef, vivid.Message, ...time.Duration) vivid.Future[vivid.Message] {
	panic("not used")
}
func (l *liaison) Entrust(time.Duration, vivid.EntrustTask) vivid.Future[vivid.Message] {
	panic("not used")
}

func (l *liaison) PipeTo(vivid.ActorRef, vivid.Message, vivid.ActorRefs, ...time.Duration) string {
	panic("not used")
}
func (l *liaison) Logger() log.Logger { return vsys.Silent }

func errStr(e error) string {
	switch {
	case e == nil:
		return ""
	case errors.Is(e, vivid.ErrorFutureTimeout):
		return "timeout"
	case errors.Is(e, vivid.ErrorActorDeaded):
		return "deaded"
	}
	return e.Error()
}

// thread bodies
var bodies = map[string]string{
	"r1": "reply r1", "r2": "reply r2", "cd": "Close(deaded)", "cn": "Close(nil)",
	"p1": "PipeTo(f1)", "p1c": "PipeTo(f1, a clone of f1, f1 parsed again)", "p12": "PipeTo(f1,f2)", "p2": "PipeTo(f2)", "res": "Result()", "wait": "Wait()",
}

func scenario(threads []string, timeout time.Duration, bounds []int) *vexp.Scenario {
	name := fmt.Sprintf("%s/timeout=%v", strings.Join(threads, "|"), timeout)
	cfg := vrt.Config{Cost: vrt.CostPreempt, StepBudget: 20000, TimerRace: timeout > 0}
	return &vexp.Scenario{
		Name:         name,
		Family:       fmt.Sprintf("%dthreads", len(threads)),
		Cfg:          cfg,
		Bounds:       bounds,
		CheckRaces:   true,
		AccessPoints: true,
		Body: func(x *vexp.X) {
			l := &liaison{}
			closerRuns := 0
			f := future.NewFuture[vivid.Message](l, timeout, func() { closerRuns++ })
			f1, _ := actor.NewRef("localhost", "/f1")
			f2, _ := actor.NewRef("localhost", "/f2")
			type ret struct {
				who string
				val string
				err string
				at  int64
			}
			var rets []ret
			piped := map[string]int{} // forwarder path -> times named in a PipeTo
			for ti, b := range threads {
				ti, b := ti, b
				vrt.Go(fmt.Sprintf("t%d-%s", ti, b), func() {
					switch b {
					case "r1":
						f.Enqueue(mailbox.NewEnvelop(false, nil, nil, "r1"))
					case "r2":
						f.Enqueue(mailbox.NewEnvelop(false, nil, nil, "r2"))
					case "cd":
						f.Close(vivid.ErrorActorDeaded)
					case "cn":
						f.Close(nil)
					case "p1":
						piped["/f1"]++
						f.PipeTo(vivid.ActorRefs{f1})
					case "p1c":
						// one call naming the same actor through three distinct reference objects: still one forwarder
						piped["/f1"]++
						again, _ := actor.NewRef(f1.GetAddress(), f1.GetPath())
						f.PipeTo(vivid.ActorRefs{f1, f1.Clone(), again})
					case "p2":
						piped["/f2"]++
						f.PipeTo(vivid.ActorRefs{f2})
					case "p12":
						piped["/f1"]++
						piped["/f2"]++
						f.PipeTo(vivid.ActorRefs{f1, f2})
					case "res":
						v, err := f.Result()
						rets = append(rets, ret{fmt.Sprintf("t%d", ti), fmt.Sprint(v), errStr(err), vrt.Now()})
					case "wait":
						err := f.Wait()
						rets = append(rets, ret{fmt.Sprintf("t%d", ti), "-", errStr(err), vrt.Now()})
					}
				})
			}
			vrt.Quiesce()
			if live := vrt.LiveThreads(); len(live) > 0 {
				// nobody completes the future in this scenario and no timeout is armed: waiting forever is legitimate
				completes := timeout > 0
				for _, b := range threads {
					if b == "r1" || b == "r2" || b == "cd" || b == "cn" {
						completes = true
					}
				}
				if completes {
					x.Fail("result-returns", "the future was completed but callers are still blocked: %v", live)
				}
				x.Outcome("pending")
				return
			}
			// the final pair
			v, err := f.Result()
			final := ret{"final", fmt.Sprint(v), errStr(err), 0}
			legal := map[string]bool{}
			for _, b := range threads {
				switch b {
				case "r1":
					legal["r1|"] = true
				case "r2":
					legal["r2|"] = true
				case "cd":
					legal["<nil>|deaded"] = true
				case "cn":
					legal["<nil>|"] = true
				}
			}
			if timeout > 0 {
				legal["<nil>|timeout"] = true
			}
			key := final.val + "|" + final.err
			if !legal[key] {
				x.Fail("result-is-one-completion", "final result (%s, err=%q) is not the payload of any completing operation %v", final.val, final.err, threads)
			}
			for _, r := range rets {
				if r.err != final.err || (r.val != "-" && r.val != final.val) {
					x.Fail("all-callers-same-result", "%s got (%s, err=%q) but the future's result is (%s, err=%q)", r.who, r.val, r.err, final.val, final.err)
				}
				if r.err == "timeout" && r.at < int64(timeout) {
					x.Fail("timeout-not-early", "timeout result observed at virtual time %v, before the timeout %v", time.Duration(r.at), timeout)
				}
			}
			if closerRuns != 1 {
				x.Fail("closer-once", "the registration closer ran %d times", closerRuns)
			}
			got := map[string][]told{}
			for _, t := range l.log {
				got[t.to] = append(got[t.to], t)
			}
			var fw []string
			for p := range piped {
				fw = append(fw, p)
			}
			sort.Strings(fw)
			for _, p := range fw {
				ts := got[p]
				// Unique() de-duplicates forwarders registered before completion; a forwarder named in
				// two PipeTo calls may legitimately be told once or twice, but never zero times
				if len(ts) == 0 {
					x.Fail("forwarder-gets-result", "forwarder %s was named in PipeTo but never received the result", p)
				}
				if len(ts) > piped[p] {
					x.Fail("forwarder-gets-result", "forwarder %s was named in %d PipeTo calls but received %d results", p, piped[p], len(ts))
				}
				for _, t := range ts {
					want := final.val
					if want == "<nil>" {
						want = "<nil>"
					}
					if t.msg != want || t.err != final.err {
						x.Fail("forwarder-final-result", "forwarder %s received (%s, err=%q), the future's final result is (%s, err=%q)", p, t.msg, t.err, final.val, final.err)
					}
				}
			}
			for p := range got {
				if piped[p] == 0 {
					x.Fail("forwarder-gets-result", "%s received a result without being a forwarder", p)
				}
			}
			x.Outcome(fmt.Sprintf("%s|%s fw=%v", final.val, final.err, l.log))
			x.Logf("final %s|%s told %v", final.val, final.err, l.log)
		},
	}
}

func build(tier string) []*vexp.Scenario {
	b2, b3 := []int{0, 1, 2}, []int{0, 1}
	if tier == "thorough" {
		b2, b3 = []int{0, 1, 2, 3}, []int{0, 1, 2}
	}
	var out []*vexp.Scenario
	completers := []string{"r1", "r2", "cd", "cn"}
	others := []string{"p1", "p1c", "p12", "res", "wait"}
	for _, a := range completers {
		for _, b := range append(completers, others...) {
			for _, to := range []time.Duration{0, time.Second} {
				out = append(out, scenario([]string{a, b}, to, b2))
			}
		}
	}
	for _, a := range completers[:3] {
		for _, b := range []string{"r2", "cd", "p1", "p12"} {
			for _, c := range []string{"p2", "p1", "res"} {
				if a == b {
					continue
				}
				out = append(out, scenario([]string{a, b, c}, 0, b3))
				out = append(out, scenario([]string{a, b, c}, time.Second, b3))
			}
		}
	}
	// only the timeout completes it
	out = append(out, scenario([]string{"p1", "res"}, time.Second, b2), scenario([]string{"p12", "wait", "p1"}, time.Second, b3))
	if tier == "thorough" {
		out = append(out, scenario([]string{"r1", "cd", "p1", "p2"}, time.Second, []int{0, 1, 2}), scenario([]string{"r1", "r2", "p12", "res"}, 0, []int{0, 1, 2}))
	}
	return out
}

func main() { vexp.Main("C04", "c04fut", build) }
