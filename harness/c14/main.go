// Harness c14: remoting under connection faults. Two real Systems on the in-memory network;
// the connection from A to B is cut after every byte offset of the stream, dials are refused,
// the peer restarts, invalid frames are injected by a raw client.
package main

import (
	"encoding/binary"
	"fmt"
	"net"
	"strings"
	"time"

	"github.com/kercylan98/vivid"
	"github.com/kercylan98/vivid/internal/mailbox"
	"github.com/kercylan98/vivid/internal/messages"
	"github.com/kercylan98/vivid/internal/remoting/serialize"
	"github.com/kercylan98/vivid/internal/verif/vcodec"
	"github.com/kercylan98/vivid/internal/verif/vexp"
	"github.com/kercylan98/vivid/internal/verif/vnet"
	"github.com/kercylan98/vivid/internal/verif/vrt"
	"github.com/kercylan98/vivid/internal/verif/vsys"
)

const addrA, addrB = "127.0.0.1:1001", "127.0.0.1:1002"

type params struct {
	fault string // fin (the established connection is ended cleanly, EOF on both ends, while both systems stay up) | cut | refuse | restart | badframe | first-contact (two senders use the peer for the first time at once; the first j dials are refused)
	j     int    // cut offset / number of refused dials / bad frame kind
	j2    int    // second fault: cut offset on the second connection (-1 none)
	limit int    // reconnect limit
	n     int
}

func (p params) name() string {
	return fmt.Sprintf("%s/j=%d/j2=%d/limit=%d/n=%d", p.fault, p.j, p.j2, p.limit, p.n)
}

func msg(id string) *vcodec.CustomMsg { return &vcodec.CustomMsg{N: 7, T: id} }

func scenario(p params, bounds []int) *vexp.Scenario {
	cfg := vsys.CoarseSends(400000)
	cfg.SwitchOnNet = true
	if p.fault == "first-contact" {
		cfg.FinePkgs = []string{"vivid/internal/remoting."} // the lazily built per-address mailbox / connection is shared by the two senders
	}
	return &vexp.Scenario{
		Name:   p.name(),
		Family: p.fault,
		Cfg:    cfg,
		Bounds: bounds,
		Setup:  func(x *vexp.X) { vsys.CoarseSetupSends() },
		Body: func(x *vexp.X) {
			nw := vnet.Reset()
			if p.fault == "short-reads" || p.fault == "reverse-bad-frame" {
				// no connection fault: but what a Read returns is the environment's choice (1, 3, half, all-but-one, all bytes)
				nw.ChunkOptions = func(c *vnet.VConn, avail int) []int {
					opts := []int{avail}
					for _, k := range []int{1, 3, avail / 2, avail - 1} {
						if k >= 1 && k < avail && k != opts[len(opts)-1] {
							opts = append(opts, k)
						}
					}
					return opts
				}
			}
			switch p.fault {
			case "cut":
				nw.CutAt = func(addr string, idx int) int {
					if addr == addrB && idx == 0 {
						return p.j
					}
					if addr == addrB && idx == 1 {
						return p.j2
					}
					return -1
				}
			case "refuse", "first-contact":
				nw.Refuse = func(addr string, idx int) bool { return addr == addrB && idx < p.j }
			}
			remoting := func(bind string) vivid.ActorSystemOption {
				return vivid.WithActorSystemRemotingOption(vivid.WithActorSystemRemotingReconnect(p.limit, 100*time.Millisecond, time.Second, 2, false))
			}
			mk := func(bind string) *vsys.World {
				w := vsys.NewWorld(x, vivid.WithActorSystemRemoting(bind), remoting(bind), vivid.WithActorSystemDefaultAskTimeout(30*time.Second))
				w.Quiet = true
				w.Start()
				return w
			}
			wa := mk(addrA)
			var wb *vsys.World
			var atB []string
			if p.fault == "reverse-bad-frame" {
				// no system on B: a scripted peer speaks the protocol by hand. After the first frame of the first connection it writes a
				// frame header announcing more than the limit BACK on that (dialled) connection, and keeps serving new connections.
				ta, _ := net.ResolveTCPAddr("tcp", addrB)
				ln, err := vnet.ListenTCP("tcp", ta)
				if err != nil {
					x.Fail("harness", "listen: %v", err)
					return
				}
				readFull := func(c net.Conn, n int) ([]byte, bool) {
					buf := make([]byte, n)
					for got := 0; got < n; {
						k, err := c.Read(buf[got:])
						if err != nil {
							return nil, false
						}
						got += k
					}
					return buf, true
				}
				conns := 0
				vrt.GoDaemon("scripted-peer-accept", func() {
					for {
						c, err := ln.Accept()
						if err != nil {
							return
						}
						conns++
						first := conns == 1
						vrt.GoDaemon(fmt.Sprintf("scripted-peer-conn-%d", conns), func() {
							l, ok := readFull(c, 4) // the dialler's handshake: a length-prefixed address
							if !ok {
								return
							}
							if _, ok = readFull(c, int(binary.BigEndian.Uint32(l))); !ok {
								return
							}
							hs := messages.NewWriter()
							hs.WriteFrom(addrB)
							c.Write(hs.Bytes())
							for n := 0; ; n++ {
								l, ok := readFull(c, 4)
								if !ok {
									return
								}
								body, ok := readFull(c, int(binary.BigEndian.Uint32(l)))
								if !ok {
									return
								}
								if _, _, _, _, _, m, err := serialize.DecodeEnvelopWithRemoting(nil, body); err == nil {
									if cm, ok := m.(*vcodec.CustomMsg); ok {
										atB = append(atB, cm.T)
									}
								}
								if first && n == 0 {
									c.Write([]byte{0x7f, 0xff, 0xff, 0xff}) // an invalid length, in the reverse direction
								}
							}
						})
					}
				})
			} else {
				wb = mk(addrB)
			}
			spawnEcho := func(w *vsys.World) {
				if w == nil {
					return
				}
				w.SpawnRoot(&vsys.Script{Name: "echo", OnOther: func(a *vsys.Act, ctx vivid.ActorContext, m any) {
					if cm, ok := m.(*vcodec.CustomMsg); ok {
						s := cm.T
						if cm.N != 7 {
							s += fmt.Sprintf("(N=%d)", cm.N)
						}
						atB = append(atB, s)
					}
				}})
			}
			spawnEcho(wb)
			echoB, _ := wa.Sys.CreateRef(addrB, "/echo")
			var sent []string
			var parked []string
			var processedWhileRetrying int
			wa.SpawnRoot(&vsys.Script{Name: "s1", OnMsg: func(a *vsys.Act, ctx vivid.ActorContext, m vsys.Msg) {
				switch m.ID {
				case "go":
					for i := 0; i < p.n; i++ {
						id := fmt.Sprintf("m%d", len(sent)+1)
						sent = append(sent, id)
						t0 := vrt.Now()
						ctx.Tell(echoB, msg(id))
						if d := vrt.Now() - t0; d > 0 {
							parked = append(parked, fmt.Sprintf("%s:%v", id, time.Duration(d)))
						}
					}
				case "probe":
					processedWhileRetrying++
				}
			}})
			var sent2 []string
			wa.SpawnRoot(&vsys.Script{Name: "s2", OnMsg: func(a *vsys.Act, ctx vivid.ActorContext, m vsys.Msg) {
				if m.ID == "go" {
					for i := 0; i < p.n; i++ {
						id := fmt.Sprintf("x%d", len(sent2)+1)
						sent2 = append(sent2, id)
						ctx.Tell(echoB, msg(id))
					}
				}
			}})
			vrt.QuiesceNoTimers()
			settle := func() {
				vrt.SetHorizon(vrt.Now() + int64(2*time.Minute))
				vrt.Quiesce()
				vrt.SetHorizon(0)
			}
			s1 := wa.Ref("/s1")
			switch p.fault {
			case "reverse-bad-frame":
				wa.Sys.Tell(s1, vsys.Msg{ID: "go"})
				settle()
				wa.Sys.Tell(s1, vsys.Msg{ID: "go"})
				settle()
			case "short-reads":
				wa.Sys.Tell(s1, vsys.Msg{ID: "go"})
				settle()
			case "fin":
				wa.Sys.Tell(s1, vsys.Msg{ID: "go"})
				settle()
				for _, c := range nw.Conns {
					if c.Client {
						c.Fin()
					}
				}
				settle()
				wa.Sys.Tell(s1, vsys.Msg{ID: "go"})
				settle()
			case "idle":
				// no fault at all: two bursts two minutes apart (longer than any handshake deadline or idle timer)
				wa.Sys.Tell(s1, vsys.Msg{ID: "go"})
				settle()
				wa.Sys.Tell(s1, vsys.Msg{ID: "go"})
				settle()
			case "first-contact":
				wa.Sys.Tell(s1, vsys.Msg{ID: "go"})
				wa.Sys.Tell(wa.Ref("/s2"), vsys.Msg{ID: "go"})
				settle()
			case "cut", "refuse":
				wa.Sys.Tell(s1, vsys.Msg{ID: "go"})
				wa.Sys.Tell(s1, vsys.Msg{ID: "probe"})
				settle()
				// the peer is reachable (again): a later message must arrive
				nw.Refuse = nil
				wa.Sys.Tell(s1, vsys.Msg{ID: "go"})
				settle()
			case "restart":
				wa.Sys.Tell(s1, vsys.Msg{ID: "go"})
				settle()
				wb.Sys.Stop()
				settle()
				// the peer PROCESS is gone: the operating system closes its sockets
				for _, c := range nw.Conns {
					c.Break()
				}
				if p.j == 1 {
					// a send while the peer is down
					wa.Sys.Tell(s1, vsys.Msg{ID: "go"})
					settle()
				}
				wb = mk(addrB)
				spawnEcho(wb)
				vrt.QuiesceNoTimers()
				wa.Sys.Tell(s1, vsys.Msg{ID: "go"})
				settle()
			case "badframe":
				// a raw client speaks the protocol to B: handshake, valid frame, bad frame, valid frame
				frame := func(id string) []byte {
					sender, _ := wa.Sys.CreateRef(addrA, "/raw")
					data, err := serialize.EncodeEnvelopWithRemoting(nil, mailbox.NewEnvelop(false, sender, echoB, msg(id)))
					if err != nil {
						x.Fail("harness", "encode: %v", err)
					}
					l := make([]byte, 4)
					binary.BigEndian.PutUint32(l, uint32(len(data)))
					return append(l, data...)
				}
				conn, err := vnet.Dial("tcp", addrB)
				if err != nil {
					x.Fail("harness", "raw dial: %v", err)
					return
				}
				hs := messages.NewWriter()
				hs.WriteFrom(addrA)
				conn.Write(hs.Bytes())
				buf := make([]byte, 64)
				conn.Read(buf) // the server's handshake
				sent = append(sent, "r1")
				conn.Write(frame("r1"))
				var bad []byte
				switch p.j {
				case 0: // undecodable body of plausible length
					bad = []byte{0, 0, 0, 5, 0xff, 0xfe, 0xfd, 0xfc, 0xfb}
				case 1: // over-limit length followed by what looks like a frame carrying a message nobody sent
					forged := frame("FORGED")
					bad = append([]byte{0x7f, 0xff, 0xff, 0xff}, forged...)
				case 2: // valid envelope of an unknown message name
					w := messages.NewWriter()
					w.WriteFrom([]byte("payload"), "noSuchMessage", false, addrA, "/raw", addrB, "/echo")
					l := make([]byte, 4)
					binary.BigEndian.PutUint32(l, uint32(len(w.Bytes())))
					bad = append(l, w.Bytes()...)
				case 3: // a frame whose envelope is valid but whose body is truncated inside
					f := frame("r-bad")
					f[7] ^= 0x40
					bad = f
				}
				conn.Write(bad)
				vrt.Yield()
				sent = append(sent, "r2")
				conn.Write(frame("r2"))
				settle()
			}
			// ---------------- oracle ----------------
			// what B received is a subsequence of what was sent: intact, no duplicate, in order
			seen := map[string]bool{}
			all := atB
			for _, sender := range []struct {
				prefix string
				sent   []string
			}{{"x", sent2}, {"", sent}} {
				sent := sender.sent
				var atB []string
				for _, g := range all {
					if strings.HasPrefix(g, "x") == (sender.prefix == "x") {
						atB = append(atB, g)
					}
				}
				pos := 0
				for _, g := range atB {
					if seen[g] {
						x.Fail("never-duplicated", "B received %s twice (received %v)", g, atB)
					}
					seen[g] = true
					found := false
					for pos < len(sent) {
						if sent[pos] == g {
							found = true
							pos++
							break
						}
						pos++
					}
					if !found {
						known := false
						for _, s := range sent {
							if s == g {
								known = true
							}
						}
						if known {
							x.Fail("never-reordered", "B received %v, not a subsequence of what was sent %v", atB, sent)
						} else {
							x.Fail("never-corrupted", "B received %q, which was never sent (sent %v)", g, sent)
						}
						break
					}
				}
			}
			// dead letters on the sending side
			dead := map[string]int{}
			for _, pb := range wa.Pubs {
				if pb.Type == "DeathLetterEvent" || pb.Type == "DeathLetter" {
					for _, s := range sent {
						if strings.Contains(pb.Detail, s+"}") || strings.Contains(pb.Detail, s+" ") || strings.HasSuffix(strings.SplitN(pb.Detail, ")", 2)[0], s) {
							dead[s]++
						}
					}
				}
			}
			for s, n := range dead {
				if n > 1 {
					x.Fail("dead-letter-once", "%s was dead-lettered %d times on the sending side", s, n)
				}
				if seen[s] {
					x.Fail("dead-letter-means-not-delivered", "%s was reported as a dead letter on the sending side but B received it", s)
				}
			}
			if p.fault == "idle" || p.fault == "short-reads" {
				for _, s := range sent {
					if !seen[s] || dead[s] > 0 {
						x.Fail("no-fault-no-loss", "no fault was injected, yet %s (retry limit %d) was not delivered (received %v, dead letters %v, net %v)", s, p.limit, atB, dead, nw.Log)
					}
				}
			}
			switch p.fault {
			case "cut", "refuse", "restart", "fin", "reverse-bad-frame":
				// the last burst was sent while the peer was reachable
				last := sent[len(sent)-p.n:]
				for li, s := range last {
					if !seen[s] && p.limit == 0 && dead[s] == 1 && li < len(last)-1 {
						continue // without retries the write that discovers the broken connection is reported as a dead letter
					}
					if !seen[s] {
						x.Fail("recovers", "%s was sent after the peer became reachable again but never arrived (received %v, dead letters %v, net %v)", s, atB, dead, nw.Log)
					}
				}
				if p.fault == "refuse" {
					// the retry budget is per message and exact: the first p.j dials are refused, every message may
					// dial limit+1 times, and a message that got through leaves a connection for the ones behind it
					r := p.j
					for _, s := range sent[:p.n] {
						if r >= p.limit+1 {
							r -= p.limit + 1
							if seen[s] {
								x.Fail("harness", "%s arrived although all %d attempts of its budget were refused", s, p.limit+1)
							}
							continue // dead letter expected (checked below for the first one, "dead-letter-means-not-delivered" for all)
						}
						r = 0
						if !seen[s] {
							x.Fail("dead-letter-only-after-the-configured-attempts", "%s had %d reconnect attempts left when the peer accepted again, but it never arrived (received %v, dead letters %v, net %v)", s, p.limit+1, atB, dead, nw.Log)
						}
					}
				}
				if p.fault == "refuse" && p.j > p.limit {
					// every attempt of the first burst's first message was refused: it must be a dead letter
					if dead[sent[0]] != 1 && !seen[sent[0]] {
						x.Fail("gave-up-means-dead-letter", "%s could not be written after %d attempts but was not reported as a dead letter (dead letters %v)", sent[0], p.limit+1, dead)
					}
				}
			case "badframe":
				// after an invalid LENGTH the stream cannot be re-synchronised: closing the connection is
				// fine (kind 1); after an undecodable BODY the next frame must still arrive
				if !seen["r1"] || (!seen["r2"] && p.j != 1) {
					x.Fail("bad-frame-does-not-stop-later-frames", "frames around an invalid frame (kind %d): received %v of [r1 r2]", p.j, atB)
				}
			}
			if len(parked) > 0 {
				x.Fail("tell-never-parks", "Tell blocked its caller while the peer was unreachable: virtual time passed inside Tell (%v): the reconnect back-off sleeps on the sender's goroutine", parked)
			}
			x.Outcome(fmt.Sprintf("%v|dead=%v", atB, dead))
			x.Logf("sent %v received %v dead %v parked %v net %v", sent, atB, dead, parked, nw.Log)
			vrt.Freeze()
			wa.Sys.Stop()
			if wb != nil {
				wb.Sys.Stop()
			}
			settle()
		},
	}
}

func build(tier string) []*vexp.Scenario {
	b := []int{0}
	if tier == "thorough" {
		b = []int{0, 1}
	}
	var out []*vexp.Scenario
	// the client->server stream of n=3 messages: handshake (18 bytes) + 3 frames of ~85 bytes
	for _, limit := range []int{0, 1, 3} {
		for j := 0; j <= 280; j++ {
			if tier != "thorough" && limit != 1 && j%3 != 0 {
				continue
			}
			out = append(out, scenario(params{"cut", j, -1, limit, 3}, b))
		}
		for k := 1; k <= 5; k++ {
			out = append(out, scenario(params{"refuse", k, -1, limit, 2}, b))
		}
	}
	// two faults: both the first and the second connection are cut
	step := 17
	if tier == "thorough" {
		step = 5
	}
	for j := 1; j <= 280; j += step {
		for j2 := 0; j2 <= 200; j2 += step {
			out = append(out, scenario(params{"cut", j, j2, 3, 3}, b))
		}
	}
	for _, k := range []int{0, 1} {
		for _, limit := range []int{0, 1, 3} {
			out = append(out, scenario(params{"restart", k, -1, limit, 2}, b))
		}
	}
	out = append(out, scenario(params{"short-reads", 0, -1, 1, 3}, []int{0, 1}))
	for _, limit := range []int{1, 3} {
		out = append(out, scenario(params{"reverse-bad-frame", 0, -1, limit, 2}, []int{0}))
	}
	for _, limit := range []int{0, 1, 3} {
		out = append(out, scenario(params{"idle", 0, -1, limit, 2}, []int{0, 1}))
		out = append(out, scenario(params{"fin", 0, -1, limit, 2}, []int{0, 1}))
	}
	for j := 0; j <= 1; j++ {
		j := j
		out = append(out, vexp.Split(8, func() *vexp.Scenario { return scenario(params{"first-contact", j, -1, 1, 2}, []int{0, 1, 2}) })...)
	}
	for kind := 0; kind <= 3; kind++ {
		out = append(out, scenario(params{"badframe", kind, -1, 1, 0}, []int{0, 1}))
	}
	return out
}

func main() { vexp.Main("C14", "c14", build) }
