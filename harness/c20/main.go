// Harness c20: scheduled messages fire as specified and die with their actor. Real
// actor.Scheduler -> internal/scheduler -> quartz data model on virtual time; operations are
// issued by the owning actor inside handlers at chosen virtual instants; a reference
// timetable predicts every delivery instant.
package main

import (
	"errors"
	"fmt"
	"sort"
	"strings"
	"time"

	"github.com/kercylan98/vivid"
	"github.com/kercylan98/vivid/internal/actor"
	"github.com/kercylan98/vivid/internal/verif/vexp"
	"github.com/kercylan98/vivid/internal/verif/vrt"
	"github.com/kercylan98/vivid/internal/verif/vsys"
)

const horizon = 7 * time.Second
const half = 500 * time.Millisecond

// op: at virtual instant `at`, actor `who` performs `kind` on reference `ref`
type op struct {
	at   time.Duration
	who  string // o1 | o2
	kind string // stashnext (the owner stashes the next scheduled message it receives) | unstash | once | loop | cron | badcron | cancel | clear | kill | restart | killrecv | kill-sched | restart-sched (the owner's OnKill handler schedules a Loop "k" to /r while it is dying / being restarted)
	ref  string
	d    time.Duration
	recv string // self | r | o1 | o2 (another owner)
}

func (o op) String() string {
	return fmt.Sprintf("%v:%s.%s(%s,%v,%s)", o.at, o.who, o.kind, o.ref, o.d, o.recv)
}

type job struct {
	owner    string
	ref      string
	recv     string
	instants []time.Duration
	kind     string
}

// model computes, per job, the set of instants at which a delivery MUST happen and the set at
// which it MAY happen (an operation processed exactly at a firing instant may go either way).
func model(ops []op, actual []time.Duration) (must, may map[string][]time.Duration, recvDeadAt map[string]time.Duration) {
	must, may = map[string][]time.Duration{}, map[string][]time.Duration{}
	recvDeadAt = map[string]time.Duration{}
	jobs := map[string]*job{}
	cut := func(j *job, t time.Duration) {
		var keep []time.Duration
		for _, i := range j.instants {
			if i < t {
				keep = append(keep, i)
			} else if i <= t+1 {
				// the operation and the firing instant coincide (within the 1 ns the driver stops short): either way
				may[j.owner+"/"+j.ref] = append(may[j.owner+"/"+j.ref], i)
			}
		}
		j.instants = keep
	}
	for oi, o := range ops {
		key := o.who + "/" + o.ref
		o.at = actual[oi]
		switch o.kind {
		case "once":
			if _, dup := jobs[key]; dup {
				continue
			}
			jobs[key] = &job{owner: o.who, ref: o.ref, recv: o.recv, kind: "once", instants: []time.Duration{o.at + o.d}}
		case "loop":
			if _, dup := jobs[key]; dup {
				continue
			}
			j := &job{owner: o.who, ref: o.ref, recv: o.recv, kind: "loop"}
			for t := o.at + o.d; t <= horizon; t += o.d {
				j.instants = append(j.instants, t)
			}
			jobs[key] = j
		case "cron": // "*/2 * * * * *": every even second (virtual time zero is an even second)
			if _, dup := jobs[key]; dup {
				continue
			}
			j := &job{owner: o.who, ref: o.ref, recv: o.recv, kind: "cron"}
			for t := 2 * time.Second; t <= horizon; t += 2 * time.Second {
				if t > o.at {
					j.instants = append(j.instants, t)
				}
			}
			jobs[key] = j
		case "cancel":
			if j, ok := jobs[key]; ok {
				cut(j, o.at)
			}
		case "clear", "kill", "restart", "kill-sched", "restart-sched":
			for _, j := range jobs {
				if j.owner == o.who {
					cut(j, o.at)
				}
			}
			if o.kind == "kill-sched" || o.kind == "restart-sched" {
				// registered by the dying incarnation during its death sequence: its owner terminates (restarts) before any firing instant
				jobs[o.who+"/k"] = &job{owner: o.who, ref: "k", recv: "r", kind: "loop"}
			}
		case "killrecv":
			recvDeadAt["r"] = o.at
		}
	}
	for k, j := range jobs {
		must[k] = j.instants
		_ = k
	}
	return
}

func pathOf(who string) string {
	if who == "q1" {
		return "/q/o1"
	}
	return "/p/" + who
}

func scenario(name string, ops []op, bounds []int) *vexp.Scenario {
	return &vexp.Scenario{
		Name:   name,
		Family: fmt.Sprintf("%dops", len(ops)),
		Cfg:    func() vrt.Config { c := vsys.CoarseSends(150000); c.TimerRace = true; return c }(),
		Bounds: bounds,
		Setup:  func(x *vexp.X) { vsys.CoarseSetupSends() },
		Body: func(x *vexp.X) {
			w := vsys.NewWorld(x)
			w.Quiet = true
			w.Start()
			type delivery struct {
				recv string
				job  string
				at   time.Duration
			}
			var dels []delivery
			record := func(path string) func(a *vsys.Act, ctx vivid.ActorContext, m vsys.Msg) {
				return func(a *vsys.Act, ctx vivid.ActorContext, m vsys.Msg) {
					if strings.HasPrefix(m.ID, "job:") {
						dels = append(dels, delivery{recv: path, job: m.ID[4:], at: time.Duration(vrt.Now())})
					}
				}
			}
			schedOnKillDone := map[string]bool{}
			stashNext := map[string]int{}
			results := map[string]error{}
			actual := make([]time.Duration, len(ops))
			mkOwner := func(who string) *vsys.Script {
				name := who
				if who == "q1" {
					name = "o1" // same actor name as /p/o1, different path
				}
				s := &vsys.Script{Name: name}
				if who == "o2" {
					// this owner has a child of its own: its termination / restart completes only when the child's notice arrives
					s.Children = []*vsys.Script{{Name: "kid"}}
				}
				rec := record(pathOf(who))
				name = who
				s.OnMsg = func(a *vsys.Act, ctx vivid.ActorContext, m vsys.Msg) {
					if !strings.HasPrefix(m.ID, "op:") {
						if stashNext[name] > 0 && strings.HasPrefix(m.ID, "job:") {
							stashNext[name]--
							ctx.Stash() // it counts as delivered when it comes back from the stash, carrying its own value
							return
						}
						rec(a, ctx, m)
						return
					}
					var idx int
					fmt.Sscanf(m.ID, "op:%d", &idx)
					o := ops[idx]
					actual[idx] = time.Duration(vrt.Now())
					recv := ctx.Ref()
					if o.recv == "r" {
						recv = w.Ref("/r")
					} else if o.recv == "o1" || o.recv == "o2" {
						recv = w.Ref(pathOf(o.recv))
					}
					payload := vsys.Msg{ID: "job:" + name + "/" + o.ref}
					var err error
					switch o.kind {
					case "once":
						if o.ref == "" {
							// API variant: the whole option struct is given (here only a Location), no reference at all
							err = ctx.Scheduler().Once(recv, o.d, payload, vivid.WithScheduleOptions(vivid.ScheduleOptions{Location: time.UTC}))
						} else {
							err = ctx.Scheduler().Once(recv, o.d, payload, vivid.WithSchedulerReference(o.ref))
						}
					case "loop":
						if o.ref == "" {
							err = ctx.Scheduler().Loop(recv, o.d, payload, vivid.WithScheduleOptions(vivid.ScheduleOptions{Location: time.UTC}))
						} else {
							err = ctx.Scheduler().Loop(recv, o.d, payload, vivid.WithSchedulerReference(o.ref))
						}
					case "cron":
						err = ctx.Scheduler().Cron(recv, "*/2 * * * * *", payload, vivid.WithSchedulerReference(o.ref))
					case "badcron":
						err = ctx.Scheduler().Cron(recv, "this is not cron", payload, vivid.WithSchedulerReference(o.ref))
					case "stashnext":
						stashNext[name]++
					case "unstash":
						ctx.Unstash(99)
					case "cancel":
						err = ctx.Scheduler().Cancel(o.ref)
					case "clear":
						ctx.Scheduler().(*actor.Scheduler).Clear()
					case "restart", "restart-sched":
						panic("scripted failure -> restart")
					}
					results[fmt.Sprintf("%d", idx)] = err
				}
				s.OnKill = func(a *vsys.Act, ctx vivid.ActorContext, m *vivid.OnKill) {
					for _, o := range ops {
						if o.who == name && (o.kind == "kill-sched" || o.kind == "restart-sched") && !schedOnKillDone[name] {
							schedOnKillDone[name] = true
							if err := ctx.Scheduler().Loop(w.Ref("/r"), time.Second, vsys.Msg{ID: "job:" + name + "/k"}, vivid.WithSchedulerReference("k")); err != nil {
								x.Logf("Loop from OnKill: %v", err)
							}
						}
					}
				}
				return s
			}
			par := &vsys.Script{Name: "p", Children: []*vsys.Script{mkOwner("o1"), mkOwner("o2")}}
			par.Strategy = w.Decider("/p", false, vivid.SupervisionDecisionRestart)
			par2 := &vsys.Script{Name: "q", Children: []*vsys.Script{mkOwner("q1")}}
			par2.Strategy = w.Decider("/q", false, vivid.SupervisionDecisionRestart)
			w.SpawnRoot(par2)
			r := &vsys.Script{Name: "r"}
			r.OnMsg = record("/r")
			w.SpawnRoot(par)
			w.SpawnRoot(r)
			vrt.QuiesceNoTimers()
			advance := func(t time.Duration) {
				vrt.SetHorizon(int64(t))
				vrt.AddTimer(int64(t)-vrt.Now(), "advance", func() {})
				vrt.Quiesce()
			}
			known := map[string]bool{} // references ever scheduled successfully per owner (for Cancel expectations)
			for i, o := range ops {
				if time.Duration(vrt.Now()) < o.at {
					// stop one tick short and then open the horizon up to the instant itself: a job firing
					// exactly at o.at races the operation (timer deviation), it is not ordered before it
					advance(o.at - 1)
					vrt.SetHorizon(int64(o.at))
				}
				actual[i] = time.Duration(vrt.Now())
				if o.at == 0 {
					vrt.HoldTimers(true)
				}
				switch o.kind {
				case "kill", "kill-sched":
					w.Sys.Kill(w.Ref(pathOf(o.who)), false, "driver")
				case "killrecv":
					w.Sys.Kill(w.Ref("/r"), false, "driver")
				default:
					w.Sys.Tell(w.Ref(pathOf(o.who)), vsys.Msg{ID: fmt.Sprintf("op:%d", i)})
				}
				// the operation completes at its instant: only timers due at that very instant may race it
				if o.at == 0 {
					vrt.QuiesceNoTimers()
					vrt.HoldTimers(false)
				} else {
					vrt.SetHorizon(int64(o.at))
					vrt.Quiesce()
				}
				// kills take effect when the target handles them
				switch o.kind {
				case "kill", "kill-sched":
					for _, en := range w.EntriesOf(pathOf(o.who)) {
						if en.Type == "OnKill" {
							actual[i] = time.Duration(en.At)
						}
					}
				case "killrecv":
					for _, en := range w.EntriesOf("/r") {
						if en.Type == "OnKill" {
							actual[i] = time.Duration(en.At)
						}
					}
				}
			}
			advance(horizon)
			vrt.SetHorizon(0)
			// ---------------- oracle ----------------
			must, may, recvDead := model(ops, actual)
			got := map[string][]time.Duration{}
			for _, d := range dels {
				got[d.job] = append(got[d.job], d.at)
				// delivered to the configured receiver only
				for _, o := range ops {
					if o.who+"/"+o.ref == d.job && (o.kind == "once" || o.kind == "loop" || o.kind == "cron") {
						want := pathOf(o.who)
						if o.recv == "r" {
							want = "/r"
						} else if o.recv == "o1" || o.recv == "o2" {
							want = pathOf(o.recv)
						}
						if d.recv != want {
							x.Fail("delivered-to-receiver", "job %s was delivered to %s, its receiver is %s", d.job, d.recv, want)
						}
					}
				}
			}
			deadJobs := map[string][]time.Duration{}
			for _, pb := range w.Pubs {
				if (pb.Type == "DeathLetterEvent" || pb.Type == "DeathLetter") && strings.Contains(pb.Detail, "job:") {
					j := pb.Detail[strings.Index(pb.Detail, "job:")+4:]
					if k := strings.IndexAny(j, "})"); k > 0 {
						j = j[:k]
					}
					deadJobs[j] = append(deadJobs[j], 0)
				}
			}
			keys := map[string]bool{}
			for k := range must {
				keys[k] = true
			}
			for k := range got {
				keys[k] = true
			}
			var ks []string
			for k := range keys {
				ks = append(ks, k)
			}
			sort.Strings(ks)
			var oc []string
			for _, k := range ks {
				g := append([]time.Duration(nil), got[k]...)
				sort.Slice(g, func(i, j int) bool { return g[i] < g[j] })
				m := must[k]
				allowed := map[time.Duration]bool{}
				for _, t := range m {
					allowed[t] = true
				}
				for _, t := range may[k] {
					allowed[t] = true
				}
				recvIsR := strings.HasSuffix(k, "/k")
				for _, o := range ops {
					if o.who+"/"+o.ref == k && o.recv == "r" {
						recvIsR = true
					}
				}
				// deliveries may be handled later than their firing instant (the receiver can be slow),
				// never earlier: match the sorted deliveries against the sorted allowed instants
				var al []time.Duration
				for t := range allowed {
					al = append(al, t)
				}
				sort.Slice(al, func(i, j int) bool { return al[i] < al[j] })
				dead, isDead := recvDead["r"]
				wantMin := 0
				for _, t := range m {
					if recvIsR && isDead && t >= dead {
						continue // receiver gone: a dead letter instead of a delivery
					}
					wantMin++
				}
				if len(g) > len(al) {
					x.Fail("fires-only-as-scheduled", "job %s was delivered %d times %v; the timetable allows only %v (ties %v) given %v", k, len(g), g, m, may[k], ops)
				}
				if len(g) < wantMin {
					x.Fail("fires-as-scheduled", "job %s was delivered %d times %v; the timetable demands %v given %v", k, len(g), g, m, ops)
				}
				for i, t := range g {
					if i < len(al) && t < al[i] {
						x.Fail("not-before-its-instant", "delivery #%d of job %s happened at %v, before its firing instant %v (timetable %v) given %v", i+1, k, t, al[i], al, ops)
					}
				}
				if _, isDead := recvDead["r"]; !(recvIsR && isDead) && len(deadJobs[k]) > len(may[k]) {
					x.Fail("no-dead-letter-for-dead-job", "job %s produced %d dead letters although its receiver is alive or the job was cancelled", k, len(deadJobs[k]))
				}
				oc = append(oc, fmt.Sprintf("%s@%v", k, g))
			}
			for i, o := range ops {
				err := results[fmt.Sprintf("%d", i)]
				switch o.kind {
				case "badcron":
					if err == nil || !errors.Is(err, vivid.ErrorCronParse) {
						x.Fail("invalid-cron-rejected", "Cron with an invalid expression returned %v", err)
					}
				case "once", "loop", "cron":
					if err != nil && !known[o.who+"/"+o.ref] {
						x.Fail("schedule-succeeds", "%v returned %v", o, err)
					}
					known[o.who+"/"+o.ref] = true // (registering a reference that is already registered may be refused or ignored: either way the first job stands)
				case "cancel":
					if !known[o.who+"/"+o.ref] {
						if err == nil || !errors.Is(err, vivid.ErrorNotFound) {
							x.Fail("cancel-unknown-not-found", "Cancel of the never scheduled reference %q returned %v", o.ref, err)
						}
					}
				}
			}
			x.Outcome(strings.Join(oc, " "))
			x.Logf("deliveries %v dead %v", oc, deadJobs)
			w.Sys.Stop()
			vrt.QuiesceNoTimers()
		},
	}
}

func build(tier string) []*vexp.Scenario {
	bounds := []int{0, 1}
	if tier == "thorough" {
		bounds = []int{0, 1, 2}
	}
	s := time.Second
	var out []*vexp.Scenario
	add := func(name string, ops ...op) { out = append(out, scenario(name, ops, bounds)) }
	// single jobs
	for _, d := range []time.Duration{0, 1 * s, 2 * s, 3 * s} {
		for _, recv := range []string{"self", "r"} {
			add(fmt.Sprintf("once/d=%v/recv=%s", d, recv), op{0, "o1", "once", "a", d, recv})
			if d > 0 {
				add(fmt.Sprintf("loop/i=%v/recv=%s", d, recv), op{0, "o1", "loop", "a", d, recv})
			}
		}
	}
	add("cron/valid", op{half, "o1", "cron", "a", 0, "self"})
	add("cron/invalid", op{0, "o1", "badcron", "a", 0, "self"})
	add("cancel/unknown", op{0, "o1", "cancel", "nope", 0, "self"})
	add("once-zero-twice", op{0, "o1", "once", "a", 0, "self"}, op{half, "o1", "once", "b", 0, "self"}, op{s, "o2", "once", "c", 0, "r"})
	// job + terminating operation at every relevant instant (before, at, after the firing instant)
	for _, jk := range []string{"once", "loop", "cron"} {
		d := 2 * s
		for _, term := range []string{"cancel", "clear", "kill", "restart"} {
			for _, at := range []time.Duration{s, 2 * s, 2*s + half, 4 * s} {
				for _, recv := range []string{"self", "r"} {
					if jk == "cron" && recv == "r" {
						continue
					}
					add(fmt.Sprintf("%s+%s@%v/recv=%s", jk, term, at, recv), op{0, "o1", jk, "a", d, recv}, op{at, "o1", term, "a", 0, recv})
				}
			}
		}
	}
	// two jobs on one owner, colliding instants; cancel one / clear; a fired Once plus live jobs then Clear / kill / restart
	add("two-jobs/cancel-one", op{0, "o1", "loop", "a", s, "self"}, op{0, "o1", "loop", "b", s, "r"}, op{s + half, "o1", "cancel", "a", 0, "self"})
	for _, term := range []string{"clear", "kill", "restart"} {
		add("fired-once+loops+"+term, op{0, "o1", "once", "a", s, "self"}, op{0, "o1", "loop", "b", s, "self"}, op{0, "o1", "loop", "c", 2 * s, "r"}, op{2*s + half, "o1", term, "", 0, "self"})
	}
	// the same reference on two actors
	add("same-ref-two-actors/cancel-one", op{0, "o1", "loop", "j", s, "self"}, op{0, "o2", "loop", "j", s, "self"}, op{s + half, "o1", "cancel", "j", 0, "self"})
	add("same-ref-two-actors/kill-one", op{0, "o1", "loop", "j", s, "r"}, op{0, "o2", "once", "j", 3 * s, "r"}, op{s + half, "o1", "kill", "", 0, "self"})
	add("same-ref-two-actors/clear-other", op{0, "o1", "once", "j", 2 * s, "self"}, op{0, "o2", "loop", "j", s, "self"}, op{s, "o2", "clear", "", 0, "self"})
	// the same reference on two actors with the same NAME under different parents
	add("same-ref-same-name/cancel-one", op{0, "o1", "loop", "j", s, "self"}, op{0, "q1", "loop", "j", s, "self"}, op{s + half, "o1", "cancel", "j", 0, "self"})
	add("same-ref-same-name/kill-one", op{0, "o1", "once", "j", 2 * s, "self"}, op{0, "q1", "once", "j", 3 * s, "self"}, op{s, "q1", "kill", "", 0, "self"})
	// a Once of another actor, under the same reference, delivered to an owner of a live job: the owner's own job stays cancellable / clearable
	for _, term := range []string{"cancel", "clear", "kill"} {
		add("foreign-once-same-ref+"+term, op{0, "o1", "loop", "j", s, "self"}, op{0, "o2", "once", "j", half, "o1"}, op{s + half, "o1", term, "j", 0, "self"})
	}
	// jobs registered by the death sequence itself (OnKill handler) die with the incarnation too
	add("sched-in-onkill/kill", op{0, "o1", "loop", "a", s, "self"}, op{s + half, "o1", "kill-sched", "", 0, "self"})
	add("sched-in-onkill/restart", op{0, "o1", "loop", "a", s, "self"}, op{s + half, "o1", "restart-sched", "", 0, "self"})
	// an owner that has a child (its own death / restart is completed by the child's termination notice)
	for _, term := range []string{"kill", "restart", "clear"} {
		add("owner-with-child/loop+once+"+term, op{0, "o2", "loop", "a", s, "self"}, op{0, "o2", "once", "b", 3 * s, "r"}, op{s + half, "o2", term, "", 0, "self"})
	}
	// jobs scheduled with a full option struct and no reference
	add("no-reference/once", op{0, "o1", "once", "", s, "self"})
	add("no-reference/loop+kill", op{0, "o1", "loop", "", s, "r"}, op{2*s + half, "o1", "kill", "", 0, "r"})
	// the same reference registered again while the first job is pending: the first job stands and stays cancellable / clearable
	for _, jk := range []string{"once", "loop"} {
		for _, term := range []string{"cancel", "clear", "kill", "restart"} {
			add("registered-twice/"+jk+"+"+term, op{0, "o1", jk, "a", 2 * s, "r"}, op{half, "o1", jk, "a", 2 * s, "r"}, op{s, "o1", term, "a", 0, "r"})
		}
		add("registered-twice/"+jk, op{0, "o1", jk, "a", 2 * s, "r"}, op{half, "o1", "once", "a", s, "r"})
	}
	// scheduled messages that the receiver stashes come back with their own value
	add("stash-scheduled/two-onces", op{0, "o1", "stashnext", "", 0, "self"}, op{0, "o1", "once", "a", s, "self"}, op{0, "o1", "once", "b", 2 * s, "self"}, op{3 * s, "o1", "unstash", "", 0, "self"})
	add("stash-scheduled/loop-and-once", op{0, "o1", "stashnext", "", 0, "self"}, op{0, "o1", "stashnext", "", 0, "self"}, op{0, "o1", "once", "a", s, "self"}, op{0, "o1", "loop", "b", 2 * s, "self"}, op{0, "o1", "once", "c", 3 * s, "self"}, op{3*s + half, "o1", "unstash", "", 0, "self"})
	// receiver dies, job lives
	add("receiver-dies", op{0, "o1", "loop", "a", s, "r"}, op{s + half, "o1", "killrecv", "", 0, "r"}, op{3*s + half, "o1", "cancel", "a", 0, "r"})
	return out
}

func main() { vexp.Main("C20", "c20", build) }
