package main

import (
	"fmt"

	_ "github.com/kercylan98/vivid/internal/actor"
	"github.com/kercylan98/vivid/internal/messages"
)

func main() {
	names, types := messages.VerifRegistry()
	for _, n := range names {
		t := types[n]
		fmt.Printf("%-32s %s", n, t)
		if t.Kind().String() == "struct" {
			for i := 0; i < t.NumField(); i++ {
				fmt.Printf(" | %s %s", t.Field(i).Name, t.Field(i).Type)
			}
		}
		fmt.Println()
	}
}
