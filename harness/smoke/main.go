package main

import (
	"fmt"

	"github.com/kercylan98/vivid"
	"github.com/kercylan98/vivid/internal/verif/vexp"
	"github.com/kercylan98/vivid/internal/verif/vrt"
	"github.com/kercylan98/vivid/internal/verif/vsys"
)

func build(tier string) []*vexp.Scenario {
	sc := &vexp.Scenario{
		Name:   "smoke/restart",
		Cfg:    vsys.Coarse(100000),
		Bounds: []int{0, 1, 2},
		Setup:  func(x *vexp.X) { vsys.CoarseSetup() },
		Body: func(x *vexp.X) {
			w := vsys.NewWorld(x)
			w.Start()
			child := &vsys.Script{Name: "a", OnMsg: func(a *vsys.Act, ctx vivid.ActorContext, m vsys.Msg) {
				if m.ID == "boom" {
					panic("boom")
				}
			}}
			parent := &vsys.Script{Name: "p", Children: []*vsys.Script{child}}
			parent.Strategy = w.Decider("/p", false, vivid.SupervisionDecisionRestart)
			if _, err := w.SpawnRoot(parent); err != nil {
				x.Fail("harness", "spawn: %v", err)
			}
			vrt.Quiesce()
			w.Sys.Tell(w.Ref("/p/a"), vsys.Msg{ID: "m1"})
			w.Sys.Tell(w.Ref("/p/a"), vsys.Msg{ID: "boom"})
			w.Sys.Tell(w.Ref("/p/a"), vsys.Msg{ID: "m2"})
			vrt.Quiesce()
			x.Logf("live: %v", vrt.LiveThreads())
			err := w.Sys.Stop()
			x.Logf("stop: %v", err)
			vrt.Quiesce()
			x.Logf("live after stop: %v timers=%v", vrt.LiveThreads(), vrt.PendingTimers())
			x.Outcome(w.Summary())
		},
		Post: func(x *vexp.X, r *vrt.Result) {
			x.Logf("blocked at end: %v", r.Blocked)
		},
	}
	return []*vexp.Scenario{sc}
}

func main() { vexp.Main("SMOKE", "smoke", build); fmt.Print() }
