package main

// Handshake.Wait is the first decoder a connecting peer's bytes meet: a 4-byte declared length and that many bytes of address,
// read into a fixed buffer. Every declared length around the buffer's limits, with every amount of bytes actually supplied
// around the declared amount, must give an address or an error - no panic, no allocation out of proportion, no hang - and a
// refused handshake must leave the address decoded before untouched.

import (
	"bytes"
	"encoding/binary"
	"fmt"
	"io"
	"net"
	"time"

	"github.com/kercylan98/vivid/internal/remoting"
	"github.com/kercylan98/vivid/internal/verif/venum"
)

type byteConn struct{ r *bytes.Reader }

func (c *byteConn) Read(p []byte) (int, error) {
	if c.r.Len() == 0 {
		return 0, io.EOF
	}
	if len(p) > 7 { // short reads: a frame never arrives in one piece
		p = p[:7]
	}
	return c.r.Read(p)
}
func (c *byteConn) Write(p []byte) (int, error)      { return len(p), nil }
func (c *byteConn) Close() error                     { return nil }
func (c *byteConn) LocalAddr() net.Addr              { return &net.TCPAddr{} }
func (c *byteConn) RemoteAddr() net.Addr             { return &net.TCPAddr{} }
func (c *byteConn) SetDeadline(time.Time) error      { return nil }
func (c *byteConn) SetReadDeadline(time.Time) error  { return nil }
func (c *byteConn) SetWriteDeadline(time.Time) error { return nil }

func handshakeLengths(thorough bool) *venum.Check {
	return &venum.Check{Name: "handshake/declared-length-x-supplied-bytes", Family: "boundary", Run: func(c *venum.Ctx) {
		var declared []uint64
		for d := uint64(0); d <= 9; d++ {
			declared = append(declared, d)
		}
		for d := uint64(250); d <= 260; d++ {
			declared = append(declared, d)
		}
		for d := uint64(4080); d <= 4110; d++ {
			declared = append(declared, d)
		}
		if thorough { // every declared length up to twice the buffer instead of the neighbourhoods of its limits
			declared = declared[:0]
			for d := uint64(0); d <= 8200; d++ {
				declared = append(declared, d)
			}
		}
		declared = append(declared, 8191, 8192, 65535, 65536, 1<<24, 1<<31-1, 1<<31, 1<<32-2, 1<<32-1)
		for _, d := range declared {
			supplied := map[int]bool{0: true, 1: true, 3: true}
			for _, s := range []int64{int64(d) - 1, int64(d), int64(d) + 1, int64(d) + 5} {
				if s >= 0 && s <= 8300 {
					supplied[int(s)] = true
				}
			}
			for s := range supplied {
				for _, fill := range []byte{'a', 0x00, 0xff} {
					data := make([]byte, 4, 4+s)
					binary.BigEndian.PutUint32(data, uint32(d))
					data = append(data, bytes.Repeat([]byte{fill}, s)...)
					c.Case(fmt.Sprintf("hs|%d|%d|%x", d, s, fill), true)
					in := map[string]any{"declared": d, "supplied": s, "fill": fmt.Sprintf("%02x", fill)}
					guardedHS(c, in, data, d, s, fill)
				}
			}
		}
		// the length prefix itself cut short
		for n := 0; n < 4; n++ {
			data := []byte{0, 0, 0, 5}[:n]
			c.Case(fmt.Sprintf("hs-prefix|%d", n), true)
			guardedHS(c, map[string]any{"prefix_bytes": n}, data, 5, 0, 0)
		}
		c.Sample(map[string]any{"declared": 4093, "supplied": 4093})
	}}
}

func guardedHS(c *venum.Ctx, in map[string]any, data []byte, d uint64, s int, fill byte) {
	const before = "previous-address"
	h := &remoting.Handshake{AdvertiseAddr: before}
	var err error
	done := make(chan struct{})
	go func() {
		defer close(done)
		guarded(c, "Handshake.Wait", data[:min(len(data), 16)], func() { err = h.Wait(&byteConn{bytes.NewReader(data)}) })
	}()
	select {
	case <-done:
	case <-time.After(30 * time.Second):
		c.Fail("decode-terminates", in, "Handshake.Wait did not return on a connection that had delivered all its bytes and reported EOF")
		return
	}
	if len(data) < 4 {
		if err == nil {
			c.Fail("decode-rejects-truncation", in, "Handshake.Wait accepted a length prefix of %d bytes", len(data))
		}
		return
	}
	switch {
	case err != nil && h.AdvertiseAddr != before:
		c.Fail("failed-decode-leaves-target", in, "Handshake.Wait returned %v but had already replaced the address by %d bytes", err, len(h.AdvertiseAddr))
	case err == nil && uint64(s) < d:
		c.Fail("decode-rejects-truncation", in, "Handshake.Wait accepted a handshake declaring %d bytes of which only %d arrived", d, s)
	case err == nil && h.AdvertiseAddr != string(bytes.Repeat([]byte{fill}, int(d))):
		c.Fail("decode-value", in, "Handshake.Wait accepted %d declared bytes but the address has %d bytes", d, len(h.AdvertiseAddr))
	}
}
