// Harness c13: the codec is total. Decoding arbitrary bytes (all short strings, every
// truncation and single-byte corruption of every valid encoding of the C12 corpus) through
// every entry point returns a value or an error: no panic, no allocation out of proportion,
// targets untouched on failure. Encoding unsupported values returns an error.
package main

import (
	"fmt"
	"reflect"
	"runtime/metrics"
	"time"
	"unsafe"

	"github.com/kercylan98/vivid"
	_ "github.com/kercylan98/vivid/internal/actor"
	"github.com/kercylan98/vivid/internal/cluster"
	"github.com/kercylan98/vivid/internal/mailbox"
	"github.com/kercylan98/vivid/internal/messages"
	"github.com/kercylan98/vivid/internal/remoting/serialize"
	"github.com/kercylan98/vivid/internal/verif/vcodec"
	"github.com/kercylan98/vivid/internal/verif/venum"
)

var allocSample = []metrics.Sample{{Name: "/gc/heap/allocs:bytes"}}

func allocated() uint64 {
	metrics.Read(allocSample)
	return allocSample[0].Value.Uint64()
}

// sentinel: a valid message nested three levels deep. It is decoded after every enumerated decode: whatever a rejected
// input did to state shared between decodes (pooled readers handed out twice, sticky errors), the next valid one must not notice.
var sentinelData, sentinelWant = func() ([]byte, string) {
	m := &vivid.PipeResult{Id: "outer", Message: &vivid.PipeResult{Id: "inner", Message: &messages.PingMessage{Time: time.Unix(1_700_000_000, 42)}}}
	w := messages.NewWriter()
	if err := w.WriteMessage(m, vcodec.UserCodec{}); err != nil {
		panic(err)
	}
	return append([]byte(nil), w.Bytes()...), vcodec.CanonMessage("PipeResult", m)
}()

var sentinelFailed bool

func checkSentinel(c *venum.Ctx, what string, input []byte) {
	if sentinelFailed {
		return
	}
	defer func() {
		if r := recover(); r != nil {
			sentinelFailed = true
			c.Fail("decode-after-failed-decode", map[string]any{"entry": what, "bytes": fmt.Sprintf("%x", input)}, "decoding a valid nested message right after %s had been given these bytes panicked: %v", what, r)
		}
	}()
	back, err := messages.NewReader(sentinelData).ReadMessage(vcodec.UserCodec{})
	if err != nil || vcodec.CanonMessage("PipeResult", back) != sentinelWant {
		sentinelFailed = true
		c.Fail("decode-after-failed-decode", map[string]any{"entry": what, "bytes": fmt.Sprintf("%x", input)}, "a valid nested message decoded right after %s had been given these bytes came back as err=%v value=%s", what, err, vcodec.CanonMessage("PipeResult", back))
	}
}

// guarded runs f, turning a panic or an allocation out of proportion into a violation.
func guarded(c *venum.Ctx, what string, input []byte, f func()) {
	before := allocated()
	defer checkSentinel(c, what, input)
	defer func() {
		if r := recover(); r != nil {
			c.Fail("decode-no-panic", map[string]any{"entry": what, "bytes": fmt.Sprintf("%x", input)}, "%s panicked on %d input bytes: %v", what, len(input), r)
			return
		}
		if d := allocated() - before; d > uint64(1<<20+4096*len(input)) {
			c.Fail("decode-bounded-allocation", map[string]any{"entry": what, "bytes": fmt.Sprintf("%x", input)}, "%s allocated %d bytes for %d input bytes", what, d, len(input))
		}
	}()
	f()
}

type entry struct {
	name string
	f    func(data []byte)
}

// a chain of nested structs deeper than any depth cut-off a size estimator may use; slices of every level are
// decoded, outermost first, so that whatever the decoder remembers about a type from one decode is in place for the next
type (
	n10 struct{ B byte }
	n9  struct{ X n10 }
	n8  struct{ X n9 }
	n7  struct{ X n8 }
	n6  struct{ X n7 }
	n5  struct{ X n6 }
	n4  struct{ X n5 }
	n3  struct{ X n4 }
	n2  struct{ X n3 }
	n1  struct{ X n2 }
)

// named basic types and a struct of them: decoded by Kind
type (
	nmK   uint8
	nmS   string
	nmF   float64
	nmI   int32
	nmRec struct {
		K nmK
		S nmS
		F nmF
		I nmI
	}
)

// element types that occupy no bytes on the wire: a count taken from the input then costs no input at all
type z0 struct{}
type z1 struct{ hidden int }

func reflectEntry[T any](name string) entry {
	return entry{"Reader.Read(*[]" + name + ")", func(d []byte) {
		var target []T
		messages.NewReader(d).Read(&target)
	}}
}

func entries() []entry {
	codec := vcodec.UserCodec{}
	var es []entry
	es = append(es, entry{"DecodeEnvelopWithRemoting", func(d []byte) { serialize.DecodeEnvelopWithRemoting(codec, d) }})
	es = append(es, entry{"DecodeEnvelopWithRemoting(no codec)", func(d []byte) { serialize.DecodeEnvelopWithRemoting(nil, d) }})
	es = append(es, entry{"Reader.ReadMessage", func(d []byte) { messages.NewReader(d).ReadMessage(codec) }})
	es = append(es, entry{"ReadVersionVector", func(d []byte) { cluster.ReadVersionVector(messages.NewReader(d)) }})
	es = append(es, reflectEntry[n1]("n1"), reflectEntry[n2]("n2"), reflectEntry[n3]("n3"), reflectEntry[n4]("n4"), reflectEntry[n5]("n5"),
		reflectEntry[n6]("n6"), reflectEntry[n7]("n7"), reflectEntry[n8]("n8"), reflectEntry[n9]("n9"), reflectEntry[n10]("n10"),
		reflectEntry[string]("string"), reflectEntry[[]byte]("[]byte"), reflectEntry[*n9]("*n9"), reflectEntry[[4]n8]("[4]n8"), reflectEntry[z0]("z0"), reflectEntry[z1]("z1"), reflectEntry[[]z0]("[]z0"),
		reflectEntry[nmK]("nmK"), reflectEntry[nmS]("nmS"), reflectEntry[nmRec]("nmRec"), reflectEntry[[]nmI]("[]nmI"))
	names, _ := messages.VerifRegistry()
	for _, n := range names {
		n := n
		es = append(es, entry{"reader:" + n, func(d []byte) { messages.VerifRead(n, messages.NewReader(d), codec) }})
	}
	return es
}

func shortStrings(maxLen int) *venum.Check {
	return &venum.Check{Name: fmt.Sprintf("decode/all-strings<=%d", maxLen), Family: "decode-short", Run: func(c *venum.Ctx) {
		es := entries()
		var rec func(buf []byte)
		n := int64(0)
		rec = func(buf []byte) {
			for _, e := range es {
				guarded(c, e.name, buf, func() { e.f(buf) })
				c.CaseN(1)
			}
			n++
			if len(buf) == maxLen || c.Expired() {
				return
			}
			for b := 0; b < 256; b++ {
				rec(append(append([]byte(nil), buf...), byte(b)))
			}
		}
		rec(nil)
		c.DistinctN(n * int64(len(es)))
		c.Sample(map[string]any{"bytes": "00ff", "entry_points": len(es)})
	}}
}

// boundaryStrings: every string of length 3..maxLen over a small alphabet of boundary bytes (length
// prefixes are 1, 2 or 4 bytes wide: this reaches every all-boundary prefix such as ff ff ff fc)
func boundaryStrings(maxLen int) *venum.Check {
	return &venum.Check{Name: fmt.Sprintf("decode/boundary-byte-strings<=%d", maxLen), Family: "decode-short", Run: func(c *venum.Ctx) {
		alpha := []byte{0x00, 0x01, 0x04, 0x7f, 0x80, 0xfc, 0xff}
		es := entries()
		n := int64(0)
		var rec func(buf []byte)
		rec = func(buf []byte) {
			if len(buf) >= 3 {
				for _, e := range es {
					guarded(c, e.name, buf, func() { e.f(buf) })
				}
				n++
			}
			if len(buf) == maxLen || c.Expired() {
				return
			}
			for _, b := range alpha {
				rec(append(append([]byte(nil), buf...), b))
			}
		}
		rec(nil)
		c.CaseN(n * int64(len(es)))
		c.DistinctN(n * int64(len(es)))
		c.Sample(map[string]any{"bytes": "fffffffc00", "alphabet": "00 01 04 7f 80 fc ff"})
	}}
}

var boundaryWords = [][]byte{{0xff, 0xff, 0xff, 0xff}, {0xff, 0xff, 0xff, 0xfc}, {0x80, 0x00, 0x00, 0x00}, {0x7f, 0xff, 0xff, 0xff}, {0x00, 0x01, 0x00, 0x00}, {0x00, 0x00, 0xff, 0xff}}

func mutationsOf(b byte, thorough bool) []byte {
	if thorough {
		out := make([]byte, 0, 255)
		for x := 0; x < 256; x++ {
			if byte(x) != b {
				out = append(out, byte(x))
			}
		}
		return out
	}
	set := map[byte]bool{}
	var out []byte
	for _, x := range []byte{0x00, 0x01, 0x7f, 0x80, 0xff, b ^ 0x01, b ^ 0x80, b + 1, b - 1, ' ', '\n', '/', '@'} {
		if x != b && !set[x] {
			set[x] = true
			out = append(out, x)
		}
	}
	return out
}

func corpusMutations(thorough bool) []*venum.Check {
	var out []*venum.Check
	names, _ := messages.VerifRegistry()
	for _, n := range names {
		n := n
		out = append(out, &venum.Check{Name: "decode/corpus-mutations/" + n, Family: "decode-mutations", Run: func(c *venum.Ctx) {
			codec := vcodec.UserCodec{}
			seen := map[string]bool{}
			cases := int64(0)
			for vi, v := range vcodec.Corpus()[n] {
				if !thorough && vi >= 12 {
					break
				}
				// three routes: direct body, nested message, envelope
				var encs [][]byte
				w := messages.NewWriter()
				if messages.VerifWrite(n, v, w, codec) == nil {
					encs = append(encs, append([]byte(nil), w.Bytes()...))
				}
				w2 := messages.NewWriter()
				if w2.WriteMessage(v, codec) == nil {
					encs = append(encs, append([]byte(nil), w2.Bytes()...))
				}
				if d, err := serialize.EncodeEnvelopWithRemoting(codec, mailbox.NewEnvelop(true, vcodec.Refs()[1], vcodec.Refs()[2], v)); err == nil {
					encs = append(encs, d)
				}
				routes := []func(d []byte){
					func(d []byte) { messages.VerifRead(n, messages.NewReader(d), codec) },
					func(d []byte) { messages.NewReader(d).ReadMessage(codec) },
					func(d []byte) { serialize.DecodeEnvelopWithRemoting(codec, d) },
				}
				routeNames := []string{"reader:" + n, "ReadMessage(" + n + ")", "DecodeEnvelop(" + n + ")"}
				for ri, enc := range encs {
					if seen[string(enc)] || len(enc) > 1500 {
						continue
					}
					seen[string(enc)] = true
					for cut := 0; cut < len(enc); cut++ {
						d := enc[:cut]
						guarded(c, routeNames[ri]+" truncated", d, func() { routes[ri](d) })
						cases++
					}
					// 4-byte windows overwritten with boundary values (length prefixes and counters)
					for off := 0; off+4 <= len(enc); off++ {
						for _, bw := range boundaryWords {
							d := append([]byte(nil), enc...)
							copy(d[off:], bw)
							guarded(c, routeNames[ri]+" boundary-word", d, func() { routes[ri](d) })
							cases++
						}
					}
					for off := 0; off < len(enc) && !c.Expired(); off++ {
						for _, m := range mutationsOf(enc[off], thorough) {
							d := append([]byte(nil), enc...)
							d[off] = m
							guarded(c, routeNames[ri]+" corrupted", d, func() { routes[ri](d) })
							cases++
						}
					}
				}
			}
			c.CaseN(cases)
			c.DistinctN(cases)
			c.Sample(map[string]any{"type": n, "distinct_valid_encodings": len(seen)})
		}})
	}
	return out
}

// ---- a failed Read leaves the target untouched ------------------------------------------------

type rec struct {
	A uint32
	B string
	C []uint16
}

type flatIn struct {
	N uint16
	B bool
}

// flat has no slice or string field: its zero value is what a decode of all-zero input yields
type flat struct {
	A uint32
	B int16
	C [2]uint8
	D flatIn
}

func untouched() *venum.Check {
	return &venum.Check{Name: "decode/failed-read-leaves-target-untouched", Family: "decode-target", Run: func(c *venum.Ctx) {
		type tcase struct {
			value any // what is encoded
			pre   any // what the target holds before
		}
		cases := []tcase{
			{uint32(7), uint32(99)}, {int64(-3), int64(5)}, {"hello", "previous"}, {[]byte{1, 2, 3}, []byte{9, 9}},
			{[]uint32{70, 80, 90}, []uint32{1, 2, 3}}, {[]uint32{70}, []uint32{1, 2, 3}}, {[]string{"aa", "bbb"}, []string{"x", "y", "z"}},
			{[3]int16{1, 2, 3}, [3]int16{7, 8, 9}}, {rec{1, "b", []uint16{5, 6}}, rec{9, "prev", []uint16{1}}},
			{[]rec{{1, "b", nil}, {2, "c", []uint16{3}}}, []rec{{7, "p", []uint16{1}}, {8, "q", nil}, {9, "r", nil}}},
			{true, false}, {float64(2.5), float64(-1)},
			{flat{7, -2, [2]uint8{1, 2}, flatIn{5, true}}, flat{9, 9, [2]uint8{3, 3}, flatIn{1, false}}}, {[4]uint32{11, 12, 13, 14}, [4]uint32{1, 2, 3, 4}},
			{[2]flatIn{{1, true}, {2, true}}, [2]flatIn{{8, false}, {9, true}}},
			// named basic types (read by Kind since fix 4e31d97): bare, in a struct, in a slice
			{nmK(7), nmK(9)}, {nmS("hello"), nmS("previous")}, {nmRec{3, "b", -2.5, 70000}, nmRec{9, "prev", 1, 1}}, {[]nmK{1, 2, 3}, []nmK{7, 8}},
			{[]nmRec{{1, "a", 1, 1}, {2, "bb", 2, 2}}, []nmRec{{9, "p", 9, 9}}},
		}
		// every case twice: the target holds a previously decoded non-zero value / the target is the zero value of its type
		// (a fresh variable, or one whose last decoded value happened to be all zeroes)
		for _, tc := range append([]tcase(nil), cases...) {
			cases = append(cases, tcase{tc.value, reflect.Zero(reflect.TypeOf(tc.pre)).Interface()})
		}
		for ci, tc := range cases {
			w := messages.NewWriter()
			w.Write(tc.value)
			if w.Err() != nil {
				c.Fail("harness", ci, "cannot encode %T", tc.value)
				continue
			}
			enc := w.Bytes()
			for cut := 0; cut < len(enc); cut++ {
				c.Case(fmt.Sprintf("%d|%d", ci, cut), true)
				in := map[string]any{"type": fmt.Sprintf("%T", tc.value), "encoding": fmt.Sprintf("%x", enc), "truncated_to": cut}
				func() {
					defer func() {
						if r := recover(); r != nil {
							c.Fail("decode-no-panic", in, "Reader.Read panicked: %v", r)
						}
					}()
					// the target holds a previously decoded value, with its own backing arrays
					target := reflect.New(reflect.TypeOf(tc.pre))
					target.Elem().Set(deepCopy(reflect.ValueOf(tc.pre)))
					alias := target.Elem().Interface() // shares backing arrays with the target
					preImage := fmt.Sprintf("%#v", tc.pre)
					r := messages.NewReader(enc[:cut])
					err := r.Read(target.Interface())
					if err == nil {
						return // some prefixes are valid encodings of a shorter value
					}
					if got := fmt.Sprintf("%#v", target.Elem().Interface()); got != preImage {
						c.Fail("failed-decode-leaves-target", in, "Read failed (%v) but changed the target from %s to %s", err, preImage, got)
					}
					if got := fmt.Sprintf("%#v", alias); got != preImage {
						c.Fail("failed-decode-leaves-target", in, "Read failed (%v) but wrote through the target's backing array: %s -> %s", err, preImage, got)
					}
				}()
			}
		}
		c.Sample(map[string]any{"target": "[]uint32{1,2,3}", "input": "encoding of []uint32{70,80,90} truncated to 9 bytes"})
	}}
}

func deepCopy(v reflect.Value) reflect.Value {
	switch v.Kind() {
	case reflect.Slice:
		if v.IsNil() {
			return v
		}
		n := reflect.MakeSlice(v.Type(), v.Len(), v.Len()+4)
		for i := 0; i < v.Len(); i++ {
			n.Index(i).Set(deepCopy(v.Index(i)))
		}
		return n
	case reflect.Struct:
		n := reflect.New(v.Type()).Elem()
		for i := 0; i < v.NumField(); i++ {
			n.Field(i).Set(deepCopy(v.Field(i)))
		}
		return n
	}
	return v
}

// ---- encode side ---------------------------------------------------------------------------------

type named8 uint8
type namedS string
type holder struct {
	OK  int32
	Bad int
}
type holder2 struct {
	P *int32
}

type namedArr [2]byte

func unsupported() *venum.Check {
	return &venum.Check{Name: "encode/unsupported-values", Family: "encode", Run: func(c *venum.Ctx) {
		var nilPtr *int32
		var nilIface any
		i32 := int32(5)
		pp := &i32
		ppp := &pp
		vals := []struct {
			desc      string
			v         any
			mustError bool
		}{
			{"nil interface", nilIface, true}, {"int", int(1), true}, {"uint", uint(1), true}, {"uintptr", uintptr(1), true},
			{"complex128", complex(1, 2), true}, {"chan int", make(chan int), true}, {"func()", func() {}, true},
			{"map[string]int", map[string]int{"a": 1}, true}, {"unsafe.Pointer", unsafe.Pointer(&i32), true},
			{"nil *int32", nilPtr, true}, {"[]int", []int{1, 2}, true}, {"[]any{nil}", []any{nil}, true},
			{"struct holding int", holder{1, 2}, true}, {"struct holding nil pointer", holder2{}, true}, {"*struct holding int", &holder{1, 2}, true},
			{"[4]byte by value", [4]byte{1, 2, 3, 4}, false}, {"[0]byte", [0]byte{}, false}, {"named byte array", namedArr{9, 8}, false},
			{"struct holding a byte array", struct{ A [2]byte }{[2]byte{1, 2}}, false}, {"[][2]uint8", [][2]uint8{{1, 2}, {3, 4}}, false},
			{"[2][2]byte", [2][2]byte{{1, 2}, {3, 4}}, false}, {"*[3]byte", &[3]byte{1, 2, 3}, false}, {"[]byte inside struct", struct{ B []byte }{[]byte{1}}, false},
			{"[2]string", [2]string{"a", ""}, false}, {"[2]bool", [2]bool{true, false}, false},
			{"named uint8", named8(7), false}, {"named string", namedS("x"), false}, {"**int32", ppp, false}, {"[]named uint8", []named8{1, 2}, false},
		}
		for _, tc := range vals {
			in := map[string]any{"value": tc.desc}
			c.Case(tc.desc, true)
			c.Risky("Writer.Write(" + tc.desc + ")")
			func() {
				defer func() {
					if r := recover(); r != nil {
						c.Fail("encode-unsupported-no-crash", in, "Writer.Write(%s) panicked: %v", tc.desc, r)
					}
				}()
				w := messages.NewWriter()
				w.Write(tc.v)
				if tc.mustError && w.Err() == nil {
					c.Fail("encode-unsupported-returns-error", in, "Writer.Write(%s) reported no error (wrote %d bytes)", tc.desc, len(w.Bytes()))
				}
				if !tc.mustError && w.Err() != nil {
					c.Fail("encode-supported", in, "Writer.Write(%s) failed: %v", tc.desc, w.Err())
				}
				w2 := messages.NewWriter()
				if err := w2.WriteFrom(int32(1), tc.v, "tail"); tc.mustError && err == nil {
					c.Fail("encode-unsupported-returns-error", in, "WriteFrom(..., %s, ...) returned no error", tc.desc)
				}
			}()
		}
		// messages that are nil / not pointers / unknown, with and without a user codec
		msgs := []struct {
			desc string
			m    any
		}{
			{"nil message", nil}, {"string message", "hello"}, {"int message", 42}, {"struct value message", vcodec.UserMsg{A: 1}},
			{"typed nil *OnKill", (*vivid.OnKill)(nil)}, {"typed nil *UserMsg", (*vcodec.UserMsg)(nil)}, {"unknown pointer type", &holder{}},
			{"PipeResult holding a string message", &vivid.PipeResult{Id: "x", Message: "plain string"}},
			{"PipeResult holding nil message", &vivid.PipeResult{Id: "x", Message: nil}},
		}
		for _, codec := range []vivid.Codec{vcodec.UserCodec{}, nil} {
			for _, tc := range msgs {
				desc := fmt.Sprintf("%s (codec=%v)", tc.desc, codec != nil)
				in := map[string]any{"message": desc}
				c.Case(desc, true)
				c.Risky("EncodeEnvelopWithRemoting(" + desc + ")")
				func() {
					defer func() {
						if r := recover(); r != nil {
							c.Fail("encode-unsupported-no-crash", in, "EncodeEnvelopWithRemoting(%s) panicked: %v", desc, r)
						}
					}()
					_, err := serialize.EncodeEnvelopWithRemoting(codec, mailbox.NewEnvelop(false, vcodec.Refs()[1], vcodec.Refs()[2], tc.m))
					if err == nil {
						c.Fail("encode-unsupported-returns-error", in, "EncodeEnvelopWithRemoting(%s) returned no error", desc)
					}
				}()
				func() {
					defer func() {
						if r := recover(); r != nil {
							c.Fail("encode-unsupported-no-crash", in, "Writer.WriteMessage(%s) panicked: %v", desc, r)
						}
					}()
					var mc messages.Codec
					if codec != nil {
						mc = codec
					}
					if err := messages.NewWriter().WriteMessage(tc.m, mc); err == nil {
						c.Fail("encode-unsupported-returns-error", in, "Writer.WriteMessage(%s) returned no error", desc)
					}
				}()
			}
		}
		c.Sample(map[string]any{"value": "struct holding int", "expect": "error"})
	}}
}

func build(tier string) []*venum.Check {
	thorough := tier == "thorough"
	var out []*venum.Check
	bl := 5
	if thorough {
		bl = 6
	}
	out = append(out, unsupported(), untouched(), shortStrings(2), boundaryStrings(bl), handshakeLengths(thorough))
	out = append(out, corpusMutations(thorough)...)
	return out
}

func main() { venum.Main("C13", "c13", build) }
