// Harness c16: version vectors form a lattice. Every vector over the ids {a,b,c} with
// per-id entry in {absent, explicit 0, 1, 2, Max[-1]} (plus the zero-value struct), all
// pairs and all triples, against a dense reference model (absent == 0).
package main

import (
	"encoding/binary"
	"fmt"
	"sort"
	"strings"

	"github.com/kercylan98/vivid/internal/cluster"
	"github.com/kercylan98/vivid/internal/messages"
	"github.com/kercylan98/vivid/internal/verif/venum"
)

var ids = []string{"a", "b", "c"}

const absent = ^uint64(0) // marker

type vec struct {
	ent [3]uint64 // absent marker or value
	nil bool
	v   cluster.VersionVector
	den [3]uint64 // dense reference
}

func (x *vec) String() string {
	if x.nil {
		return "zero-value"
	}
	var parts []string
	for i, e := range x.ent {
		if e != absent {
			parts = append(parts, fmt.Sprintf("%s:%d", ids[i], e))
		}
	}
	return "{" + strings.Join(parts, ",") + "}"
}

func mk(ent [3]uint64, nilMap bool) *vec {
	x := &vec{ent: ent, nil: nilMap}
	m := map[string]uint64{}
	for i, e := range ent {
		if e != absent {
			m[ids[i]] = e
			x.den[i] = e
		}
	}
	x.v = cluster.VerifVV(m, nilMap)
	return x
}

func alphabet(tier string) []uint64 {
	max := uint64(cluster.VerifMaxCounter)
	if tier == "thorough" {
		return []uint64{absent, 0, 1, 2, max - 1, max}
	}
	return []uint64{absent, 0, 1, 2, max}
}

func universe(tier string) []*vec {
	al := alphabet(tier)
	var out []*vec
	out = append(out, mk([3]uint64{absent, absent, absent}, true))
	for _, a := range al {
		for _, b := range al {
			for _, c := range al {
				out = append(out, mk([3]uint64{a, b, c}, false))
			}
		}
	}
	return out
}

func refCompare(x, y [3]uint64) cluster.VersionOrder {
	less, greater := false, false
	for i := range x {
		if x[i] < y[i] {
			less = true
		} else if x[i] > y[i] {
			greater = true
		}
	}
	switch {
	case less && greater:
		return cluster.VersionConcurrent
	case less:
		return cluster.VersionBefore
	case greater:
		return cluster.VersionAfter
	}
	return cluster.VersionEqual
}

func dense(v cluster.VersionVector) (d [3]uint64, extra bool) {
	for i, id := range ids {
		d[i] = v.Get(id)
	}
	es, _ := cluster.VerifVVDump(v)
	for _, e := range es {
		if e.Node != "a" && e.Node != "b" && e.Node != "c" {
			extra = true
		}
	}
	return
}

func snap(v cluster.VersionVector) string {
	es, n := cluster.VerifVVDump(v)
	return fmt.Sprintf("%v|%v", n, es)
}

func le(o cluster.VersionOrder) bool { return o == cluster.VersionBefore || o == cluster.VersionEqual }

func orderName(o cluster.VersionOrder) string {
	return [...]string{"Equal", "Before", "After", "Concurrent"}[o]
}

// wireRoute is one way of obtaining a Writer and the matching Reader options.
type wireRoute struct {
	name   string
	writer func() *messages.Writer
	ropts  []messages.ReaderOption
}

var wireRoutes = []wireRoute{
	{"big-endian", func() *messages.Writer { return messages.NewWriter() }, nil},
	{"big-endian/pooled", func() *messages.Writer { return messages.NewWriterFromPool() }, nil},
	{"big-endian/explicit", func() *messages.Writer {
		return messages.NewWriter(messages.WriterOption{ByteOrder: binary.BigEndian, Buffer: make([]byte, 3, 8), Reset: true})
	}, []messages.ReaderOption{{ByteOrder: binary.BigEndian}}},
	{"little-endian", func() *messages.Writer {
		return messages.NewWriter(messages.WriterOption{ByteOrder: binary.LittleEndian})
	}, []messages.ReaderOption{{ByteOrder: binary.LittleEndian}}},
	{"little-endian/mutable-reader", func() *messages.Writer {
		return messages.NewWriter(messages.WriterOption{ByteOrder: binary.LittleEndian})
	}, []messages.ReaderOption{{ByteOrder: binary.LittleEndian, Mutable: true}}},
}

func build(tier string) []*venum.Check {
	U := universe(tier)
	var checks []*venum.Check
	checks = append(checks, &venum.Check{Name: "pairs/compare+merge", Family: "pairs", Run: func(c *venum.Ctx) {
		for _, x := range U {
			for _, y := range U {
				sx, sy := snap(x.v), snap(y.v)
				in := []string{x.String(), y.String()}
				got := x.v.Compare(y.v)
				want := refCompare(x.den, y.den)
				c.Case(x.String()+"|"+y.String(), x.den != y.den || x.ent != y.ent)
				if got != want {
					c.Fail("compare-matches-reference", in, "Compare(%s,%s)=%s, pointwise comparison says %s", x, y, orderName(got), orderName(want))
				}
				back := y.v.Compare(x.v)
				conv := map[cluster.VersionOrder]cluster.VersionOrder{cluster.VersionEqual: cluster.VersionEqual, cluster.VersionBefore: cluster.VersionAfter, cluster.VersionAfter: cluster.VersionBefore, cluster.VersionConcurrent: cluster.VersionConcurrent}
				if back != conv[got] {
					c.Fail("compare-converse", in, "Compare(%s,%s)=%s but Compare(%s,%s)=%s", x, y, orderName(got), y, x, orderName(back))
				}
				if x.v.Equal(y.v) != (got == cluster.VersionEqual) || x.v.HappensBefore(y.v) != (got == cluster.VersionBefore) || x.v.HappensAfter(y.v) != (got == cluster.VersionAfter) || x.v.IsConcurrentWith(y.v) != (got == cluster.VersionConcurrent) {
					c.Fail("compare-predicates-agree", in, "Equal/HappensBefore/HappensAfter/IsConcurrentWith disagree with Compare(%s,%s)=%s", x, y, orderName(got))
				}
				m := x.v.Merge(y.v)
				md, extra := dense(m)
				var wantM [3]uint64
				for i := range wantM {
					wantM[i] = max(x.den[i], y.den[i])
				}
				if md != wantM || extra {
					c.Fail("merge-is-pointwise-max", in, "Merge(%s,%s)=%v, pointwise max is %v", x, y, md, wantM)
				}
				m2 := y.v.Merge(x.v)
				if m.Compare(m2) != cluster.VersionEqual {
					c.Fail("merge-commutative", in, "Merge(%s,%s) and Merge(%s,%s) are not Equal", x, y, y, x)
				}
				if !le(x.v.Compare(m)) || !le(y.v.Compare(m)) {
					c.Fail("merge-upper-bound", in, "Merge(%s,%s) is not >= both arguments: %s / %s", x, y, orderName(x.v.Compare(m)), orderName(y.v.Compare(m)))
				}
				if snap(x.v) != sx || snap(y.v) != sy {
					c.Fail("operands-unchanged", in, "Compare/Merge modified an operand: %s -> %s, %s -> %s", sx, snap(x.v), sy, snap(y.v))
				}
			}
			if x.v.Compare(x.v) != cluster.VersionEqual {
				c.Fail("compare-reflexive", []string{x.String()}, "Compare(%s,%s) is not Equal", x, x)
			}
			if x.v.Merge(x.v).Compare(x.v) != cluster.VersionEqual {
				c.Fail("merge-idempotent", []string{x.String()}, "Merge(%s,%s) is not Equal to %s", x, x, x)
			}
		}
		c.Sample(map[string]any{"x": U[7].String(), "y": U[33].String(), "compare": orderName(U[7].v.Compare(U[33].v))})
	}})
	checks = append(checks, &venum.Check{Name: "singles/increment+clone+wire", Family: "singles", Run: func(c *venum.Ctx) {
		for _, x := range U {
			for i, id := range ids {
				sx := snap(x.v)
				in := []string{x.String(), id}
				c.Case(x.String()+"+"+id, true)
				inc, err := x.v.Increment(id)
				if x.den[i] >= cluster.VerifMaxCounter {
					if err == nil {
						// overflow must not wrap silently
						if inc.Get(id) <= x.den[i] {
							c.Fail("increment-strictly-after", in, "Increment(%s,%s) at the maximum counter returned no error and counter %d", x, id, inc.Get(id))
						}
					}
				} else {
					if err != nil {
						c.Fail("increment-strictly-after", in, "Increment(%s,%s) failed: %v", x, id, err)
					} else {
						if inc.Compare(x.v) != cluster.VersionAfter || x.v.Compare(inc) != cluster.VersionBefore {
							c.Fail("increment-strictly-after", in, "Increment(%s,%s) is %s its input (input is %s it)", x, id, orderName(inc.Compare(x.v)), orderName(x.v.Compare(inc)))
						}
						d, _ := dense(inc)
						w := x.den
						w[i]++
						if d != w {
							c.Fail("increment-by-one", in, "Increment(%s,%s)=%v expected %v", x, id, d, w)
						}
					}
				}
				if snap(x.v) != sx {
					c.Fail("operands-unchanged", in, "Increment modified its operand: %s -> %s", sx, snap(x.v))
				}
			}
			sx := snap(x.v)
			cl := x.v.Clone()
			if cl.Compare(x.v) != cluster.VersionEqual {
				c.Fail("clone-equal", []string{x.String()}, "Clone(%s) is not Equal to it", x)
			}
			if inc, err := cl.Increment("a"); err == nil {
				_ = inc
			}
			cl2 := x.v.Clone()
			if i2, err := cl2.Increment("b"); err == nil {
				_ = i2
			}
			if snap(x.v) != sx {
				c.Fail("operands-unchanged", []string{x.String()}, "incrementing a Clone modified the original: %s -> %s", sx, snap(x.v))
			}
			// wire round trip, under either byte order and through a fresh, a pooled and a caller-supplied buffer; the
			// bytes the vector was decoded from are overwritten afterwards (a receive buffer is reused for the next frame)
			for _, route := range wireRoutes {
				in := []string{x.String(), route.name}
				w := route.writer()
				if err := cluster.WriteVersionVector(w, x.v); err != nil {
					c.Fail("wire-roundtrip", in, "Write(%s) [%s]: %v", x, route.name, err)
					continue
				}
				wire := append([]byte(nil), w.Bytes()...)
				frame := append([]byte(nil), wire...)
				r := messages.NewReader(frame, route.ropts...)
				back, err := cluster.ReadVersionVector(r)
				if err != nil {
					c.Fail("wire-roundtrip", in, "Read(Write(%s)) [%s]: %v", x, route.name, err)
					continue
				}
				want := fmt.Sprint(x.v.SortedEntries())
				if back.Compare(x.v) != cluster.VersionEqual || fmt.Sprint(back.SortedEntries()) != want {
					c.Fail("wire-roundtrip", in, "Read(Write(%s)) [%s] = %v", x, route.name, back.SortedEntries())
				}
				if r.Pos() != len(wire) {
					c.Fail("wire-consumes-all", in, "[%s] reader consumed %d of %d bytes", route.name, r.Pos(), len(wire))
				}
				derived := back.Clone().Merge(x.v)
				for i := range frame {
					frame[i] = 0xAA
				}
				w.Reset()
				_ = cluster.WriteVersionVector(w, U[len(U)-1].v)
				if fmt.Sprint(back.SortedEntries()) != want || back.Compare(x.v) != cluster.VersionEqual {
					c.Fail("wire-roundtrip", in, "[%s] the decoded vector changed when the bytes it was read from were reused: %v, written %s", route.name, back.SortedEntries(), x)
				}
				for _, id := range ids {
					if back.Get(id) != x.v.Get(id) {
						c.Fail("wire-roundtrip", in, "[%s] after the receive buffer was reused Get(%s) = %d, written %s", route.name, id, back.Get(id), x)
					}
				}
				if derived.Compare(x.v) != cluster.VersionEqual {
					c.Fail("wire-roundtrip", in, "[%s] Merge(Clone(decoded), original) is %s the original after the receive buffer was reused", route.name, orderName(derived.Compare(x.v)))
				}
				// re-encoding the decoded vector gives the same bytes
				w2 := route.writer()
				if err := cluster.WriteVersionVector(w2, back); err != nil || string(w2.Bytes()) != string(wire) {
					c.Fail("wire-roundtrip", in, "[%s] re-encoding the decoded vector gives different bytes (err=%v)", route.name, err)
				}
			}
			if snap(x.v) != sx {
				c.Fail("operands-unchanged", []string{x.String()}, "serialising modified the vector: %s -> %s", sx, snap(x.v))
			}
		}
		c.Sample(map[string]any{"x": U[9].String(), "incremented": "a"})
	}})
	checks = append(checks, &venum.Check{Name: "triples/transitive+associative+least", Family: "triples", Run: func(c *venum.Ctx) {
		n := len(U)
		// precompute the comparison matrix with the implementation
		cmp := make([][]cluster.VersionOrder, n)
		for i := range U {
			cmp[i] = make([]cluster.VersionOrder, n)
			for j := range U {
				cmp[i][j] = U[i].v.Compare(U[j].v)
			}
		}
		for i := 0; i < n && !c.Expired(); i++ {
			for j := 0; j < n; j++ {
				mij := U[i].v.Merge(U[j].v)
				for k := 0; k < n; k++ {
					c.CaseN(1)
					if le(cmp[i][j]) && le(cmp[j][k]) && !le(cmp[i][k]) {
						c.Fail("compare-transitive", []string{U[i].String(), U[j].String(), U[k].String()}, "%s <= %s <= %s but Compare(first,third)=%s", U[i], U[j], U[k], orderName(cmp[i][k]))
					}
					if cmp[i][j] == cluster.VersionEqual && cmp[i][k] != cmp[j][k] {
						c.Fail("equal-is-congruent", []string{U[i].String(), U[j].String(), U[k].String()}, "%s Equal %s but they compare differently to %s", U[i], U[j], U[k])
					}
					// least upper bound: every upper bound of i and j is >= merge(i,j)
					if le(cmp[i][k]) && le(cmp[j][k]) && !le(mij.Compare(U[k].v)) {
						c.Fail("merge-least-upper-bound", []string{U[i].String(), U[j].String(), U[k].String()}, "%s is an upper bound of %s and %s but Merge of them is %s it", U[k], U[i], U[j], orderName(mij.Compare(U[k].v)))
					}
					l := mij.Merge(U[k].v)
					r := U[i].v.Merge(U[j].v.Merge(U[k].v))
					if l.Compare(r) != cluster.VersionEqual {
						c.Fail("merge-associative", []string{U[i].String(), U[j].String(), U[k].String()}, "(x+y)+z and x+(y+z) differ for %s %s %s", U[i], U[j], U[k])
					}
				}
			}
		}
		c.DistinctN(int64(n) * int64(n) * int64(n))
		c.Sample(map[string]any{"x": U[3].String(), "y": U[40].String(), "z": U[77].String()})
	}})
	// vectors over many node ids: the union of two legal vectors may exceed what one vector can be serialised with (65535
	// entries); the lattice laws do not depend on that. Disjoint and overlapping id ranges whose union lies just below, at and
	// above the limit (and far above it), against the obvious reference.
	checks = append(checks, &venum.Check{Name: "large/union-around-65535", Family: "large", Run: func(c *venum.Ctx) {
		mkRange := func(lo, hi int, count uint64) cluster.VersionVector {
			m := make(map[string]uint64, hi-lo)
			for i := lo; i < hi; i++ {
				m[fmt.Sprintf("n%06d", i)] = count
			}
			return cluster.VerifVV(m, false)
		}
		type shape struct{ aLo, aHi, bLo, bHi int }
		var shapes []shape
		for _, total := range []int{65534, 65535, 65536, 65537, 80000} {
			half := total / 2
			shapes = append(shapes, shape{0, half, half, total})       // disjoint
			shapes = append(shapes, shape{0, half + 100, half, total}) // overlapping by 100 ids
			shapes = append(shapes, shape{0, total - 1, total - 1, total})
		}
		for _, sh := range shapes {
			in := []string{fmt.Sprintf("a=[%d,%d)x1 b=[%d,%d)x2", sh.aLo, sh.aHi, sh.bLo, sh.bHi)}
			c.Case(in[0], true)
			a, b := mkRange(sh.aLo, sh.aHi, 1), mkRange(sh.bLo, sh.bHi, 2)
			for _, ord := range []string{"a+b", "b+a"} {
				m := a.Merge(b)
				if ord == "b+a" {
					m = b.Merge(a)
				}
				missing, wrong := 0, 0
				for i := sh.aLo; i < sh.bHi; i++ {
					want := uint64(1)
					if i >= sh.bLo {
						want = 2
					}
					got := m.Get(fmt.Sprintf("n%06d", i))
					if got == 0 {
						missing++
					} else if got != want {
						wrong++
					}
				}
				if missing+wrong > 0 {
					c.Fail("merge-pointwise-max", in, "%s: %d of the %d components are missing from the result, %d have the wrong counter", ord, missing, sh.bHi-sh.aLo, wrong)
				}
				if le(m.Compare(a)) && m.Compare(a) != cluster.VersionEqual || le(m.Compare(b)) && m.Compare(b) != cluster.VersionEqual || m.Compare(a) == cluster.VersionConcurrent || m.Compare(b) == cluster.VersionConcurrent {
					c.Fail("merge-upper-bound", in, "%s is %s a and %s b", ord, orderName(m.Compare(a)), orderName(m.Compare(b)))
				}
			}
			if a.Merge(b).Compare(b.Merge(a)) != cluster.VersionEqual {
				c.Fail("merge-commutative", in, "a+b is %s b+a", orderName(a.Merge(b).Compare(b.Merge(a))))
			}
			// three operands: (a+b)+c vs a+(b+c) with c re-covering the first hundred ids of a with a higher counter
			cc := mkRange(sh.aLo, sh.aLo+100, 3)
			if l, r := a.Merge(b).Merge(cc), a.Merge(b.Merge(cc)); l.Compare(r) != cluster.VersionEqual {
				c.Fail("merge-associative", in, "(a+b)+c is %s a+(b+c)", orderName(l.Compare(r)))
			}
		}
	}})
	if tier == "thorough" {
		checks = append(checks, &venum.Check{Name: "sequences/depth4", Family: "sequences", Run: func(c *venum.Ctx) { sequences(c, U, 4) }})
	} else {
		checks = append(checks, &venum.Check{Name: "sequences/depth3", Family: "sequences", Run: func(c *venum.Ctx) { sequences(c, U, 3) }})
	}
	return checks
}

// sequences: operation sequences from non-initial states against the dense model.
func sequences(c *venum.Ctx, U []*vec, depth int) {
	pool := []*vec{U[0], U[1], U[len(U)/3], U[len(U)/2], U[len(U)-1], U[17], U[58]}
	type op struct {
		name string
		do   func(v cluster.VersionVector, d [3]uint64) (cluster.VersionVector, [3]uint64, bool)
	}
	var ops []op
	for i, id := range ids {
		i, id := i, id
		ops = append(ops, op{"inc-" + id, func(v cluster.VersionVector, d [3]uint64) (cluster.VersionVector, [3]uint64, bool) {
			n, err := v.Increment(id)
			if err != nil {
				return v, d, d[i] >= cluster.VerifMaxCounter
			}
			d[i]++
			return n, d, true
		}})
	}
	for pi, p := range pool {
		p := p
		ops = append(ops, op{fmt.Sprintf("merge-%d", pi), func(v cluster.VersionVector, d [3]uint64) (cluster.VersionVector, [3]uint64, bool) {
			for i := range d {
				d[i] = max(d[i], p.den[i])
			}
			return v.Merge(p.v), d, true
		}})
	}
	ops = append(ops, op{"clone", func(v cluster.VersionVector, d [3]uint64) (cluster.VersionVector, [3]uint64, bool) {
		return v.Clone(), d, true
	}})
	ops = append(ops, op{"compact", func(v cluster.VersionVector, d [3]uint64) (cluster.VersionVector, [3]uint64, bool) {
		return v.Compact(), d, true
	}})
	ops = append(ops, op{"prune-ab", func(v cluster.VersionVector, d [3]uint64) (cluster.VersionVector, [3]uint64, bool) {
		d[2] = 0
		return v.Prune([]string{"a", "b"}), d, true
	}})
	starts := []*vec{U[0], U[1], U[20], U[len(U)-1]}
	var rec func(v cluster.VersionVector, d [3]uint64, trace []string, left int, held []cluster.VersionVector, heldSnap []string)
	rec = func(v cluster.VersionVector, d [3]uint64, trace []string, left int, held []cluster.VersionVector, heldSnap []string) {
		got, _ := dense(v)
		c.Case(strings.Join(trace, ","), len(trace) > 1)
		if got != d {
			c.Fail("sequence-matches-reference", append([]string(nil), trace...), "after %v the vector is %v, the reference model says %v", trace, got, d)
			return
		}
		for i, h := range held {
			if snap(h) != heldSnap[i] {
				c.Fail("operands-unchanged", append([]string(nil), trace...), "after %v an earlier value changed: %s -> %s", trace, heldSnap[i], snap(h))
				return
			}
		}
		if left == 0 || c.Expired() {
			return
		}
		for _, o := range ops {
			nv, nd, ok := o.do(v, d)
			if !ok {
				c.Fail("sequence-op-failed", append(append([]string(nil), trace...), o.name), "operation %s failed unexpectedly after %v", o.name, trace)
				continue
			}
			rec(nv, nd, append(append([]string(nil), trace...), o.name), left-1, append(append([]cluster.VersionVector(nil), held...), v), append(append([]string(nil), heldSnap...), snap(v)))
		}
	}
	for _, s := range starts {
		rec(s.v, s.den, []string{"start=" + s.String()}, depth, nil, nil)
	}
	c.Sample([]string{"start={a:1}", "inc-a", "merge-3", "compact"})
	_ = sort.Strings
}

func main() { venum.Main("C16", "c16", build) }
