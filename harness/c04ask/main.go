// Harness c04ask: Ask through the real actor.System: every future completes exactly once with
// its own reply, a timeout no earlier than its timeout, or actor-dead; never with another
// request's reply; no registration is left behind. Coarse scheduling + switch points at sends,
// timer operations and mailbox elections + timer deviations.
package main

import (
	"errors"
	"fmt"
	"sort"
	"strings"
	"time"

	"github.com/kercylan98/vivid"
	"github.com/kercylan98/vivid/internal/actor"
	"github.com/kercylan98/vivid/internal/verif/vexp"
	"github.com/kercylan98/vivid/internal/verif/vrt"
	"github.com/kercylan98/vivid/internal/verif/vsys"
	"github.com/kercylan98/vivid/pkg/ves"
)

type req struct{ ID string }
type ans struct{ To string }

type params struct {
	askers  int    // 1 or 2 asking actors
	perAsk  int    // asks per asker
	replier string // once | twice | never | slow (replies on release)
	timeout time.Duration
	kill    string // asker-zombie (the asker fails, its restart hook fails, the resulting zombie is killed) | none | asker | asker-respawn | asker-respawn-racing (an actor reacting to ActorKilledEvent re-spawns the asker's name at once and lets the successor Ask)
	mix     bool   // the first Ask of a burst uses the default (5 s) timeout, the later ones p.timeout
}

func (p params) name() string {
	n := fmt.Sprintf("askers=%d/asks=%d/replier=%s/timeout=%v/kill=%s", p.askers, p.perAsk, p.replier, p.timeout, p.kill)
	if p.mix {
		n += "/first-ask-default-timeout"
	}
	return n
}

type pending struct {
	id     string
	asker  string
	fut    vivid.Future[vivid.Message]
	val    string
	err    string
	doneAt int64
	done   bool
	made   int64
	eff    time.Duration // its timeout
	inc    int           // incarnation of the asker's name that issued it (0 = the one that is killed)
}

func errStr(e error) string {
	switch {
	case e == nil:
		return ""
	case errors.Is(e, vivid.ErrorFutureTimeout):
		return "timeout"
	case errors.Is(e, vivid.ErrorActorDeaded):
		return "deaded"
	}
	return e.Error()
}

func scenario(p params, bounds []int) *vexp.Scenario {
	cfg := vsys.CoarseSends(100000)
	cfg.SwitchOnTime = true
	cfg.TimerRace = true
	return &vexp.Scenario{
		Name:   p.name(),
		Family: "replier=" + p.replier,
		Cfg:    cfg,
		Bounds: bounds,
		Setup:  func(x *vexp.X) { vsys.CoarseSetupSends() },
		Body: func(x *vexp.X) {
			sysOpts := []vivid.ActorSystemOption{vivid.WithActorSystemDefaultAskTimeout(5 * time.Second)}
			if p.kill == "asker-zombie" {
				// the askers are top-level actors: the system's strategy decides about their failures
				sysOpts = append(sysOpts, vivid.WithActorSystemSupervisionStrategy(vivid.OneForOneStrategy(vivid.SupervisionStrategyDecisionMakerFN(
					func(vivid.SupervisionContext) (vivid.SupervisionDecision, string) {
						return vivid.SupervisionDecisionRestart, "scripted"
					}))))
			}
			w := vsys.NewWorld(x, sysOpts...)
			w.Quiet = true
			w.Start()
			var pend []*pending
			var held []vivid.ActorRef // slow replier: senders waiting for release
			var heldIDs []string
			rep := &vsys.Script{Name: "rep"}
			rep.OnOther = func(a *vsys.Act, ctx vivid.ActorContext, m any) {
				rq, ok := m.(req)
				if !ok {
					return
				}
				switch p.replier {
				case "once":
					ctx.Reply(ans{To: rq.ID})
				case "twice":
					ctx.Reply(ans{To: rq.ID})
					ctx.Reply(ans{To: rq.ID + "-second"})
				case "slow":
					held = append(held, ctx.Sender())
					heldIDs = append(heldIDs, rq.ID)
				}
			}
			rep.OnMsg = func(a *vsys.Act, ctx vivid.ActorContext, m vsys.Msg) {
				if m.ID == "release" {
					for i, s := range held {
						ctx.Tell(s, ans{To: heldIDs[i]})
					}
					held, heldIDs = nil, nil
				}
			}
			w.SpawnRoot(rep)
			repRef := w.Ref("/rep")
			gen := 0
			incarnation := 0
			mkAsker := func(name string) *vsys.Script {
				s := &vsys.Script{Name: name}
				if p.kill == "asker-zombie" {
					s.Restarted = func(*vsys.Act) error { return errors.New("scripted restart-hook failure") }
				}
				s.OnMsg = func(a *vsys.Act, ctx vivid.ActorContext, m vsys.Msg) {
					if m.ID == "boom" {
						panic("scripted failure of the asker")
					}
					if m.ID != "ask" {
						return
					}
					for i := 0; i < p.perAsk; i++ {
						gen++
						id := fmt.Sprintf("%s.%d", name, gen)
						var f vivid.Future[vivid.Message]
						t0 := vrt.Now()
						eff := p.timeout
						if p.timeout == 0 || (p.mix && i == 0) {
							f = ctx.Ask(repRef, req{ID: id})
							eff = 5 * time.Second
						} else {
							f = ctx.Ask(repRef, req{ID: id}, p.timeout)
						}
						pd := &pending{id: id, asker: name, fut: f, made: t0, eff: eff, inc: incarnation}
						pend = append(pend, pd)
						vrt.Go("waiter-"+id, func() {
							v, err := f.Result()
							pd.val, pd.err, pd.doneAt, pd.done = fmt.Sprint(v), errStr(err), vrt.Now(), true
						})
					}
				}
				return s
			}
			names := []string{"a1", "a2"}[:p.askers]
			for _, n := range names {
				w.SpawnRoot(mkAsker(n))
			}
			if p.kill == "asker-respawn-racing" {
				resp := &vsys.Script{Name: "resp"}
				resp.Launch = func(a *vsys.Act, ctx vivid.ActorContext) { ctx.EventStream().Subscribe(ctx, ves.ActorKilledEvent{}) }
				resp.OnOther = func(a *vsys.Act, ctx vivid.ActorContext, m any) {
					if e, ok := m.(ves.ActorKilledEvent); ok && e.ActorRef.GetPath() == "/a1" && incarnation == 0 {
						incarnation = 1
						if _, err := w.SpawnRoot(mkAsker("a1")); err != nil {
							x.Logf("respawn a1: %v", err)
							return
						}
						ctx.Tell(w.Ref("/a1"), vsys.Msg{ID: "ask"})
					}
				}
				w.SpawnRoot(resp)
			}
			vrt.QuiesceNoTimers()
			for _, n := range names {
				w.Sys.Tell(w.Ref("/"+n), vsys.Msg{ID: "ask"})
				vrt.Yield()
			}
			if p.kill == "asker-zombie" {
				w.Sys.Tell(w.Ref("/a1"), vsys.Msg{ID: "boom"})
				vrt.QuiesceNoTimers() // a1 failed, was to be restarted, its hook failed: it is a zombie now
			}
			if strings.HasPrefix(p.kill, "namesake-") {
				// nobody dies: while the Asks are pending somebody tries to create another actor under the asker's name and is
				// refused (the name is taken) / fails in its own OnPrelaunch. The live asker's requests are not concerned.
				dup := mkAsker("a1")
				if p.kill == "namesake-prelaunch-fails" {
					dup = &vsys.Script{Name: "a1", Prelaunch: func(int) error { return fmt.Errorf("scripted prelaunch failure") }}
				}
				if _, err := w.SpawnRoot(dup); err == nil {
					x.Fail("harness", "the namesake of the asker was not refused")
				}
				vrt.Yield()
			} else if p.kill != "none" {
				w.Sys.Kill(w.Ref("/a1"), false, "driver")
				vrt.Yield()
			}
			if p.kill == "asker-respawn" {
				vrt.QuiesceNoTimers()
				incarnation = 1
				// a new actor under the same name asks again; then the late reply to the old request arrives
				if _, err := w.SpawnRoot(mkAsker("a1")); err != nil {
					x.Logf("respawn a1: %v", err)
				}
				w.Sys.Tell(w.Ref("/a1"), vsys.Msg{ID: "ask"})
				vrt.QuiesceNoTimers()
			}
			if p.replier == "slow" {
				w.Sys.Tell(repRef, vsys.Msg{ID: "release"})
			}
			vrt.Quiesce() // lets timeouts fire
			// ---------------- oracle ----------------
			// when did the killed asker terminate (virtual time)?
			askerDiedAt := int64(-1)
			for _, pb := range w.PubsOf("ActorKilledEvent") {
				if pb.Ref == "/a1" && askerDiedAt < 0 {
					askerDiedAt = pb.At
				}
			}
			var oc []string
			for _, pd := range pend {
				if !pd.done {
					x.Fail("ask-completes", "Ask %s never completed (Result still blocked at quiescence)", pd.id)
					oc = append(oc, pd.id+"=PENDING")
					continue
				}
				oc = append(oc, fmt.Sprintf("%s=%s/%s", pd.id, pd.val, pd.err))
				switch {
				case pd.err == "":
					want := fmt.Sprintf("{%s}", pd.id)
					if pd.val != want {
						x.Fail("own-first-reply", "Ask %s completed with %s, expected its own first reply %s", pd.id, pd.val, want)
					}
					if p.replier == "never" {
						x.Fail("own-first-reply", "Ask %s completed with %s although nobody replied", pd.id, pd.val)
					}
				case pd.err == "timeout":
					eff := pd.eff
					if pd.doneAt-pd.made < int64(eff) {
						x.Fail("timeout-not-early", "Ask %s timed out after %v, its timeout is %v", pd.id, time.Duration(pd.doneAt-pd.made), eff)
					}
					if (p.kill == "asker" || p.kill == "asker-zombie") && pd.asker == "a1" && askerDiedAt >= 0 && askerDiedAt < pd.made+int64(eff) {
						x.Fail("dead-asker-completes-its-asks", "Ask %s was still pending when its asker terminated at %v, yet it only completed by its own timeout at %v instead of with the actor-dead error", pd.id, time.Duration(askerDiedAt), time.Duration(pd.doneAt))
					}
				case pd.err == "deaded":
					if pd.inc > 0 {
						x.Fail("dead-only-if-asker-died", "Ask %s was issued by the actor that took over the name %s after its predecessor had terminated; it is alive, yet its Ask failed with the actor-dead error", pd.id, pd.asker)
					}
					if p.kill == "none" || strings.HasPrefix(p.kill, "namesake-") || pd.asker != "a1" {
						x.Fail("dead-only-if-asker-died", "Ask %s failed with actor-dead but its asker was not killed", pd.id)
					}
				default:
					x.Fail("ask-completes", "Ask %s completed with unexpected error %q", pd.id, pd.err)
				}
			}
			sysd := actor.VerifSys(w.Sys)
			for _, r := range sysd.Registry {
				if strings.Contains(r, "(future)") {
					x.Fail("no-registration-left", "every Ask completed but the registry still holds %s", r)
				}
			}
			if sysd.FutureAgents != 0 || sysd.FutureAgentRefs != 0 {
				x.Fail("no-registration-left", "every Ask completed but futureAgents still holds %d agents / %d futures", sysd.FutureAgents, sysd.FutureAgentRefs)
			}
			sort.Strings(oc)
			x.Outcome(strings.Join(oc, " "))
			x.Logf("results %v", oc)
			w.Sys.Stop()
			vrt.Quiesce()
		},
		Post: func(x *vexp.X, r *vrt.Result) {
			for _, b := range r.Blocked {
				if strings.Contains(b, "waiter-") {
					x.Fail("ask-completes", "a Result() caller is blocked forever: %s", b)
				}
			}
		},
	}
}

func build(tier string) []*vexp.Scenario {
	bounds := []int{0, 1}
	if tier == "thorough" {
		bounds = []int{0, 1, 2, 3}
	}
	var out []*vexp.Scenario
	for _, askers := range []int{1, 2} {
		for _, per := range []int{1, 2} {
			for _, rp := range []string{"once", "twice", "never", "slow"} {
				for _, to := range []time.Duration{time.Nanosecond, time.Second, 0} {
					out = append(out, scenario(params{askers: askers, perAsk: per, replier: rp, timeout: to, kill: "none"}, bounds))
				}
			}
		}
	}
	for _, rp := range []string{"once", "never", "slow"} {
		for _, to := range []time.Duration{time.Second, 0} {
			out = append(out, scenario(params{askers: 2, perAsk: 1, replier: rp, timeout: to, kill: "asker"}, bounds))
			out = append(out, scenario(params{askers: 1, perAsk: 2, replier: rp, timeout: to, kill: "asker"}, bounds))
		}
	}
	// the asker fails with an Ask in flight, its restart is abandoned (zombie), then it is killed
	for _, rp := range []string{"never", "slow"} {
		for _, to := range []time.Duration{time.Second, 0} {
			out = append(out, scenario(params{askers: 1, perAsk: 2, replier: rp, timeout: to, kill: "asker-zombie"}, bounds))
		}
	}
	// the timeout of a 1 ns Ask firing anywhere inside the registration (lock operations of packages actor / future are switch points)
	for _, per := range []int{1, 2} {
		per := per
		out = append(out, vexp.Split(6, func() *vexp.Scenario {
			return vexp.Fine(scenario(params{askers: 1, perAsk: per, replier: "never", timeout: time.Nanosecond, kill: "none"}, []int{0, 1, 2}), "vivid/internal/actor.", "vivid/internal/future.")
		})...)
	}
	// the asker's name is taken over the moment the predecessor is reported terminated; the successor's Asks are its own
	for _, rp := range []string{"once", "slow", "never"} {
		out = append(out, scenario(params{askers: 1, perAsk: 1, replier: rp, timeout: time.Second, kill: "asker-respawn-racing"}, []int{0, 1, 2}))
		for _, k := range []string{"namesake-refused", "namesake-prelaunch-fails"} {
			out = append(out, scenario(params{askers: 2, perAsk: 2, replier: rp, timeout: time.Second, kill: k}, bounds))
			out = append(out, scenario(params{askers: 1, perAsk: 1, replier: rp, timeout: 0, kill: k}, bounds))
		}
	}
	// an Ask whose timer fires while it is being registered, next to a long-lived Ask of the same asker, then the asker dies
	for _, rp := range []string{"never", "slow"} {
		for _, per := range []int{2, 3} {
			out = append(out, scenario(params{askers: 1, perAsk: per, replier: rp, timeout: time.Nanosecond, kill: "asker", mix: true}, []int{0, 1, 2}))
			out = append(out, scenario(params{askers: 1, perAsk: per, replier: rp, timeout: time.Nanosecond, kill: "none", mix: true}, bounds))
		}
	}
	// ... the same with the operations of packages actor and future as switch points: an Ask completing on its own (its 1 ns timer)
	// in the middle of the sweep that fails the dying asker's pending Asks
	for _, per := range []int{2, 3} {
		per := per
		out = append(out, vexp.Split(6, func() *vexp.Scenario {
			return vexp.Fine(scenario(params{askers: 1, perAsk: per, replier: "never", timeout: time.Nanosecond, kill: "asker", mix: true}, []int{0, 1, 2}), "vivid/internal/actor.", "vivid/internal/future.")
		})...)
	}
	for _, to := range []time.Duration{time.Second, 0} {
		out = append(out, scenario(params{askers: 1, perAsk: 1, replier: "slow", timeout: to, kill: "asker-respawn"}, bounds))
		out = append(out, scenario(params{askers: 1, perAsk: 2, replier: "slow", timeout: to, kill: "asker-respawn"}, bounds))
	}
	return out
}

func main() { vexp.Main("C04", "c04ask", build) }
