// Harness c07net: Stop / context-cancel of a System WITH remoting. System A (under test) and a
// peer B on the in-memory network; A's listener either works or cannot bind (address in use:
// the server actor sits in its listen back-off loop); connections exist outbound (A dialled B),
// inbound (B dialled A), both or none; the peer is up, already stopped, or silently gone when A
// stops. Oracle: Stop returns nil before its timeout, every actor of A is reported terminated,
// A's registry is empty, and once the peer has stopped as well no thread is left.
package main

import (
	"context"
	"errors"
	"fmt"
	"net"
	"strings"
	"time"

	"github.com/kercylan98/vivid"
	"github.com/kercylan98/vivid/internal/actor"
	"github.com/kercylan98/vivid/internal/verif/vcodec"
	"github.com/kercylan98/vivid/internal/verif/vexp"
	"github.com/kercylan98/vivid/internal/verif/vnet"
	"github.com/kercylan98/vivid/internal/verif/vrt"
	"github.com/kercylan98/vivid/internal/verif/vsys"
)

const addrA, addrB = "127.0.0.1:1001", "127.0.0.1:1002"

type params struct {
	listen  string // ok | occupied
	traffic string // none | out | in | both | sending (an actor is in the middle of a burst of Tells to the live peer when the system is stopped) | retrying (an actor's Tell to an unreachable peer is inside its reconnect back-off, 10 retries = 18 s, when the system is stopped with a 5 s timeout)
	peer    string // up | stopped | gone
	op      string // stop | cancel
}

func (p params) name() string {
	return fmt.Sprintf("listen=%s/traffic=%s/peer=%s/op=%s", p.listen, p.traffic, p.peer, p.op)
}

func scenario(p params, bounds []int) *vexp.Scenario {
	cfg := vsys.CoarseSends(400000)
	cfg.SwitchOnNet = true
	var wa, wb *vsys.World
	var stopRes string
	var stopAt, stopCalled int64
	stopReturned := false
	return &vexp.Scenario{
		Name:   p.name(),
		Family: "remoting-stop",
		Cfg:    cfg,
		Bounds: bounds,
		Setup:  func(x *vexp.X) { vsys.CoarseSetupSends() },
		Body: func(x *vexp.X) {
			stopRes, stopReturned, stopAt, stopCalled = "", false, 0, 0
			nw := vnet.Reset()
			if p.listen == "occupied" {
				ta, _ := net.ResolveTCPAddr("tcp", addrA)
				if _, err := vnet.ListenTCP("tcp", ta); err != nil {
					x.Fail("harness", "cannot occupy %s: %v", addrA, err)
				}
			}
			ctx, cancel := context.WithCancel(context.Background())
			limit, maxDelay := 2, time.Second
			if p.traffic == "retrying" {
				limit, maxDelay = 10, 3*time.Second
			}
			mk := func(bind string, opts ...vivid.ActorSystemOption) *vsys.World {
				opts = append(opts, vivid.WithActorSystemRemoting(bind),
					vivid.WithActorSystemRemotingOption(vivid.WithActorSystemRemotingReconnect(limit, 100*time.Millisecond, maxDelay, 2, false)),
					vivid.WithActorSystemStopTimeout(time.Minute))
				w := vsys.NewWorld(x, opts...)
				w.Quiet = true
				w.Start()
				return w
			}
			wa = mk(addrA, vivid.WithActorSystemContext(ctx))
			wb = mk(addrB)
			got := map[string]int{}
			echo := func(w *vsys.World, tag string) {
				w.SpawnRoot(&vsys.Script{Name: "echo", OnOther: func(a *vsys.Act, c vivid.ActorContext, m any) {
					if _, ok := m.(*vcodec.CustomMsg); ok {
						got[tag]++
					}
				}})
			}
			echo(wa, "A")
			echo(wb, "B")
			if p.traffic == "sending" {
				refB, _ := wa.Sys.CreateRef(addrB, "/echo")
				wa.SpawnRoot(&vsys.Script{Name: "snd", OnMsg: func(a *vsys.Act, c vivid.ActorContext, m vsys.Msg) {
					for i := 0; i < 3; i++ {
						c.Tell(refB, &vcodec.CustomMsg{N: 7, T: fmt.Sprintf("burst-%d", i)})
					}
				}})
			}
			if p.traffic == "retrying" {
				refB, _ := wa.Sys.CreateRef(addrB, "/echo")
				wa.SpawnRoot(&vsys.Script{Name: "snd", OnMsg: func(a *vsys.Act, c vivid.ActorContext, m vsys.Msg) {
					c.Tell(refB, &vcodec.CustomMsg{N: 7, T: "into the void"})
				}})
				nw.Refuse = func(to string, idx int) bool { return to == addrB }
			}
			settle := func(d time.Duration) {
				vrt.SetHorizon(vrt.Now() + int64(d))
				vrt.Quiesce()
				vrt.SetHorizon(0)
			}
			settle(2 * time.Second)
			if p.traffic == "out" || p.traffic == "both" {
				ref, _ := wa.Sys.CreateRef(addrB, "/echo")
				wa.Sys.Tell(ref, &vcodec.CustomMsg{N: 7, T: "a->b"})
			}
			if (p.traffic == "in" || p.traffic == "both") && p.listen == "ok" {
				ref, _ := wb.Sys.CreateRef(addrA, "/echo")
				wb.Sys.Tell(ref, &vcodec.CustomMsg{N: 7, T: "b->a"})
			}
			settle(2 * time.Second)
			if (p.traffic == "out" || p.traffic == "both") && got["B"] != 1 {
				x.Fail("harness", "the message from A did not reach B before the stop (got %v)", got)
			}
			if (p.traffic == "in" || p.traffic == "both") && p.listen == "ok" && got["A"] != 1 {
				x.Fail("harness", "the message from B did not reach A before the stop (got %v)", got)
			}
			if p.traffic == "retrying" {
				wa.Sys.Tell(wa.Ref("/snd"), vsys.Msg{ID: "go"})
				settle(500 * time.Millisecond) // the Tell is now somewhere inside its reconnect schedule
			}
			if p.traffic == "sending" {
				// a first burst establishes the connection; the second one races the stop
				wa.Sys.Tell(wa.Ref("/snd"), vsys.Msg{ID: "go"})
				settle(2 * time.Second)
				wa.Sys.Tell(wa.Ref("/snd"), vsys.Msg{ID: "go"})
			}
			switch p.peer {
			case "stopped":
				if err := wb.Sys.Stop(); err != nil {
					x.Fail("peer-stop", "the peer's own Stop failed: %v", err)
				}
				settle(2 * time.Second)
			case "gone":
				// the peer vanished without closing anything (power loss): nothing arrives from it any more
				nw.Refuse = func(to string, idx int) bool { return to == addrB }
			}
			_ = nw
			// ---- the operation under test ----
			stopCalled = vrt.Now()
			if p.op == "cancel" {
				cancel()
				settle(2 * time.Minute)
				stopRes, stopReturned, stopAt = "-", true, vrt.Now()
			} else {
				vrt.Go("stopper", func() {
					var err error
					if p.traffic == "retrying" {
						err = wa.Sys.Stop(5 * time.Second) // longer than any single back-off interval, shorter than the whole schedule
					} else {
						err = wa.Sys.Stop()
					}
					switch {
					case err == nil:
						stopRes = "nil"
					case errors.Is(err, vivid.ErrorActorSystemStopFailed):
						stopRes = "stop-failed"
					default:
						stopRes = "other:" + err.Error()
					}
					stopReturned, stopAt = true, vrt.Now()
				})
				settle(2 * time.Minute)
			}
			x.Outcome(fmt.Sprintf("%s@%v", stopRes, time.Duration(stopAt-stopCalled).Round(time.Second)))
			// A is judged now; afterwards the peer goes away too so that the thread census at the end is about A
			sys := actor.VerifSys(wa.Sys)
			if stopReturned && stopRes != "stop-failed" && len(sys.Registry) > 0 {
				x.Fail("stop-terminates-all", "system stopped (%s) but its registry still holds %v", stopRes, sys.Registry)
			}
			if p.peer != "stopped" {
				cancelRefuse := func() { nw.Refuse = nil }
				cancelRefuse()
				wb.Sys.Stop()
				for _, c := range nw.Conns {
					c.Break()
				}
			}
			settle(2 * time.Minute)
		},
		Post: func(x *vexp.X, r *vrt.Result) {
			if !stopReturned {
				x.Fail("call-returns", "%s never returned (threads blocked at the end: %v)", p.op, r.Blocked)
				return
			}
			if stopRes == "stop-failed" {
				x.Fail("stop-within-timeout", "nothing in the system is slow, yet Stop gave up after %v with ErrorActorSystemStopFailed (threads at the end: %v)", time.Duration(stopAt-stopCalled), r.Blocked)
			} else if strings.HasPrefix(stopRes, "other:") {
				x.Fail("return-values", "unexpected error from Stop: %s", stopRes)
			}
			killed := map[string]bool{}
			for _, pb := range wa.PubsOf("ActorKilledEvent") {
				killed[pb.Ref] = true
			}
			for _, pb := range wa.PubsOf("ActorSpawnedEvent") {
				if !killed[pb.Ref] && stopRes != "stop-failed" {
					x.Fail("stop-terminates-all", "system stopped but %s was never reported terminated", pb.Ref)
				}
			}
			if stopRes != "stop-failed" {
				for _, b := range r.Blocked {
					x.Fail("no-thread-left", "both systems stopped but a thread is still blocked: %s", b)
				}
			}
		},
	}
}

func build(tier string) []*vexp.Scenario {
	var out []*vexp.Scenario
	for _, listen := range []string{"ok", "occupied"} {
		for _, traffic := range []string{"none", "out", "in", "both"} {
			if listen == "occupied" && (traffic == "in" || traffic == "both") {
				continue
			}
			for _, peer := range []string{"up", "stopped", "gone"} {
				for _, op := range []string{"stop", "cancel"} {
					b := []int{0}
					if tier == "thorough" || (peer == "up" && op == "stop") {
						b = []int{0, 1}
					}
					out = append(out, scenario(params{listen, traffic, peer, op}, b))
				}
			}
		}
	}
	for _, listen := range []string{"ok", "occupied"} {
		for _, op := range []string{"stop", "cancel"} {
			out = append(out, scenario(params{listen, "retrying", "up", op}, []int{0, 1}))
		}
	}
	for _, op := range []string{"stop", "cancel"} {
		op := op
		out = append(out, vexp.Split(8, func() *vexp.Scenario { return scenario(params{"ok", "sending", "up", op}, []int{0, 1, 2}) })...)
	}
	return out
}

func main() { vexp.Main("C07", "c07net", build) }
