// Harness c02ring: the ring buffer against a slice, for every operation sequence.
package main

import (
	"fmt"

	"github.com/kercylan98/vivid/internal/queues"
	"github.com/kercylan98/vivid/internal/verif/venum"
)

type opk struct {
	name string
	k    int64 // -1 push, 0.. = PopMany(k), -2 = Pop
}

var ops = []opk{{"push", -1}, {"pop", -2}, {"popmany0", 0}, {"popmany1", 1}, {"popmany2", 2}, {"popmany5", 5}}

func step(c *venum.Ctx, q *queues.RingQueue, model []int, next *int, o opk, trace []string) ([]int, bool) {
	switch o.k {
	case -1:
		*next++
		q.Push(*next)
		model = append(model, *next)
	case -2:
		v, ok := q.Pop()
		if len(model) == 0 {
			if ok || v != nil {
				c.Fail("pop-empty", trace, "Pop on an empty queue returned (%v,%v)", v, ok)
				return model, false
			}
		} else {
			if !ok || v != model[0] {
				c.Fail("fifo-order", trace, "Pop returned (%v,%v), the reference FIFO holds %v", v, ok, model)
				return model, false
			}
			model = model[1:]
		}
	default:
		vs, ok := q.PopMany(o.k)
		if len(model) == 0 {
			if ok || len(vs) != 0 {
				c.Fail("pop-empty", trace, "PopMany(%d) on an empty queue returned (%v,%v)", o.k, vs, ok)
				return model, false
			}
		} else {
			n := int(o.k)
			if n > len(model) {
				n = len(model)
			}
			if !ok || len(vs) != n {
				c.Fail("fifo-order", trace, "PopMany(%d) returned %v (ok=%v), the reference FIFO holds %v", o.k, vs, ok, model)
				return model, false
			}
			for i := 0; i < n; i++ {
				if vs[i] != model[i] {
					c.Fail("fifo-order", trace, "PopMany(%d) returned %v, the reference FIFO holds %v", o.k, vs, model)
					return model, false
				}
			}
			model = model[n:]
		}
	}
	if q.Length() != int64(len(model)) || q.Empty() != (len(model) == 0) {
		c.Fail("length", trace, "Length()=%d Empty()=%v, the reference holds %d items", q.Length(), q.Empty(), len(model))
		return model, false
	}
	return model, true
}

func seqCheck(size int64, depth int) *venum.Check {
	return &venum.Check{Name: fmt.Sprintf("sequences/size=%d/len<=%d", size, depth), Family: "sequences", Run: func(c *venum.Ctx) {
		var rec func(q *queues.RingQueue, model []int, next int, trace []string, left int)
		grew := 0
		rec = func(q *queues.RingQueue, model []int, next int, trace []string, left int) {
			if left == 0 || c.Expired() {
				return
			}
			for _, o := range ops {
				q2 := q.VerifClone()
				n2 := next
				t2 := append(append(make([]string, 0, len(trace)+1), trace...), o.name)
				m2, ok := step(c, q2, append([]int(nil), model...), &n2, o, t2)
				c.Case("", false)
				if !ok {
					continue
				}
				_, _, mod := q2.VerifGeometry()
				_, _, mod0 := q.VerifGeometry()
				if mod != mod0 {
					grew++
				}
				rec(q2, m2, n2, t2, left-1)
			}
		}
		rec(queues.New(size), nil, 0, []string{fmt.Sprintf("New(%d)", size)}, depth)
		n := int64(1)
		total := int64(0)
		for i := 0; i < depth; i++ {
			n *= int64(len(ops))
			total += n
		}
		c.DistinctN(total) // every operation sequence is a distinct case
		c.Note("size %d: %d growth events inside the enumerated sequences", size, grew)
		c.Sample([]string{fmt.Sprintf("New(%d)", size), "push", "push", "pop", "push", "popmany2"})
	}}
}

// growth at the production size with the head at every offset, two consecutive growths.
func growthCheck(size int64) *venum.Check {
	return &venum.Check{Name: fmt.Sprintf("growth/size=%d/all-head-offsets", size), Family: "growth", Run: func(c *venum.Ctx) {
		for off := int64(0); off < size; off++ {
			for _, fill := range []int64{0, 1, size / 2, size - 2} {
				q := queues.New(size)
				var model []int
				next := 0
				trace := []string{fmt.Sprintf("New(%d) head-offset=%d pre-fill=%d", size, off, fill)}
				ok := true
				do := func(o opk) {
					if ok {
						model, ok = step(c, q, model, &next, o, trace)
					}
				}
				for i := int64(0); i < off; i++ {
					do(ops[0])
					do(ops[1])
				}
				for i := int64(0); i < fill; i++ {
					do(ops[0])
				}
				// push through two growths
				for i := int64(0); i < 2*size+3; i++ {
					do(ops[0])
					if i%7 == 3 {
						do(ops[1])
					}
				}
				for ok && len(model) > 0 {
					do(ops[4])
				}
				c.Case(fmt.Sprintf("%d/%d", off, fill), true)
			}
		}
		c.Sample(map[string]any{"size": size, "head_offset": 17, "pre_fill": 1, "then": "push 2*size+3 with a pop every 7th, drain with PopMany(2)"})
	}}
}

func build(tier string) []*venum.Check {
	depth := 8
	if tier == "thorough" {
		depth = 10
	}
	var out []*venum.Check
	for _, size := range []int64{1, 2, 3, 4} {
		out = append(out, seqCheck(size, depth))
	}
	out = append(out, growthCheck(256), growthCheck(8), growthCheck(5))
	return out
}

func main() { venum.Main("C02", "c02ring", build) }
