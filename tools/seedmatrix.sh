#!/bin/bash
# usage: seedmatrix.sh -- every seeded change against the quick check of its own property (and a few neighbours) -> /tmp/matrix/<seed>.<check>.txt
cd /verif
mkdir -p /tmp/matrix
for d in seeded/C*/; do n=$(basename $d); p=${n%-*}; extra=""
  case $n in C09-b) extra="C01";; C14-a) extra="C11";; C15-b|C15-e|C15-f|C13-e) extra="C12";; C05-c) extra="C08";; C11-d) extra="C10";; C06-c) extra="C07";; C20-h) extra="C15";; C03-g) extra="C02 C20";; C15-h) extra="C14";; C15-i) extra="C11 C14";; C10-i) extra="C06 C07";; C03-i) extra="C09";; C14-i) extra="C11";; C02-i) extra="C03";; C03-j) extra="C01 C09";; C06-j) extra="C07";; C14-j) extra="C11";; C20-j) extra="C06";; C06-k) extra="C19";; esac
  for c in $p $extra; do
    VERIF_WORKERS=8 LINES_MAX=3 tools/mutant.sh /verif/$d/patch.diff $c > /tmp/matrix/$n.$c.txt 2>&1
  done
done
echo MATRIXDONE
