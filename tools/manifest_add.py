#!/usr/bin/env python3
# usage: manifest_add.py ID category engine "text" "note" "technique" ["design_ref"]
import json, sys
id_, cat, engine, text, note, tech = sys.argv[1:7]
dref = sys.argv[7] if len(sys.argv) > 7 else "DESIGN.md §4 " + id_
m = json.load(open('/verif/MANIFEST.json'))
m['checks'] = [c for c in m['checks'] if c['property_id'] != id_]
m['checks'].append({
    "property_id": id_,
    "quick_cmd": "/verif/bin/vcheck run %s -tier quick" % id_,
    "thorough_cmd": "/verif/bin/vcheck run %s -tier thorough" % id_,
    "evidence_file": "/verif/evidence/%s.json" % id_,
    "replay_cmd_template": "/verif/bin/vcheck replay {path}",
    "engine": engine,
    "level_claimed": {"category": cat, "text": text, "design_ref": dref},
    "level_note": note,
    "technique": tech,
})
m['checks'].sort(key=lambda c: c['property_id'])
m['not_applicable'] = [n for n in m.get('not_applicable', []) if n['property_id'] != id_]
for e in m.get('engines', []):
    if e['name'] in ('instrument', 'vcheck', engine) and id_ not in e['serves_properties']:
        e['serves_properties'].append(id_); e['serves_properties'].sort()
json.dump(m, open('/verif/MANIFEST.json', 'w'), indent=1)
