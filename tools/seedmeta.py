#!/usr/bin/env python3
# Writes /verif/seeded/<id>/meta.json from the agent's notes, the confirmation log (tools/seedconfirm.sh)
# and the detection runs (tools/mutant.sh output collected under the directory given as argv[1]).
import json, os, re, sys, glob
mdir = sys.argv[1] if len(sys.argv) > 1 else '/tmp/matrix'
root = '/verif/seeded'
def section(text, *heads):
    lines = text.split('\n'); out = []; on = False
    for l in lines:
        if l.startswith('#'):
            if on: break
            on = any(h.lower() in l.lower() for h in heads)
            continue
        if on: out.append(l)
    s = re.sub(r'\s+', ' ', ' '.join(out)).strip()
    return s[:1500]
extra_notes = {
 'C14-a': 'Same defect as C11-b (found independently by another agent). Initially caught only by the C11 check; C14 was strengthened with the first-contact scenarios and now catches it as well.',
 'C09-b': 'Initially caught only by C01 (mailbox-level lost wake-up); C09 was strengthened with the fine-mailbox scenarios and now catches it as well.',
 'C15-b': 'Also caught by C12 (encode-after-failed-encode), added for this seed.',
 'C03-g': 'Caught by C02 and C20 as they stood; C03 was strengthened (sender scheduled, state stash-unstash) and now catches it as well.',
 'C15-h': 'Caught by C14 as it stood; C15 was strengthened (pre-phase peer-was-down).',
 'C20-h': 'Caught by C15 (once-to-namesake); those scenarios are now a second part of C20.',
 'C03-i': 'The same change as C09-i (found independently); caught by C09 as it stood, C03 got state grestart-paused.',
 'C10-i': 'Caught by C06 and C07 as they stood; C10 got life=stopping.',
 'C14-i': 'First seen through the writer pool shared by the systems of one execution (C11 ask scenarios); the faithful two-peers scenario was added and is part of C11 and C14.',
 'C03-j': 'NOT caught by the C03 check within its quick bounds (nor at bound 3); caught by C01 (no-lost-wakeup, 1 preemption) and by C09 (hybrid scenarios). See DESIGN.md 7.5.',
 'C06-j': 'Caught by C07 and C08 as they stood; C06 got fails=on-child-death.',
 'C20-j': 'Caught by C06 (owns=true, jobs-released) as it stood; C20 got an owner with a child.',
 'C14-j': 'The change of C11-i at another place; rejected-in-flight is now part of C14 as well.',
 'C06-k': 'Caught by C19 as it stood (linearizable-set-semantics: Unsubscribe of a type the actor does not hold); MISSED by C06 at first, whose owners all held two types: every second owner now holds exactly one type and leaves two it never held, and C06 catches it (subscriptions-released).',
 'C13-k': 'MISSED by C13 at first: Handshake.Wait was not among its entry points (DESIGN said it was). Check handshake/declared-length-x-supplied-bytes added: every declared length around the buffer limits x supplied bytes around the declared amount; catches it (decode-no-panic at declared 4093..4096).',
 'C15-i': 'The change of C14-h again (frame header read with a single Read); caught by C11 and C14 as they stood, C15 got the short-reads pre-phase.',
}
for d in sorted(glob.glob(root + '/C*/')):
    sid = os.path.basename(d.rstrip('/'))
    prop = sid.split('-')[0]
    notes = open(d + 'NOTES.agent.md').read()
    title = notes.split('\n', 1)[0].lstrip('# ').strip()
    conf = ''
    cf = root + '/.confirm/' + sid + '.txt'
    if os.path.exists(cf):
        for l in open(cf):
            if l.startswith('RESULT'): conf = l.strip()
    m = re.search(r'suite_fail_pkgs=(\d+) \| demo_with_patch: (.*?) \| demo_without_patch: (.*)$', conf)
    det = []
    for f in sorted(glob.glob('%s/%s.*.txt' % (mdir, sid))):
        check = f.rsplit('.', 2)[1]
        t = open(f).read()
        ex = re.search(r'exit=(\d+)', t)
        r = None
        for l in t.split('\n'):
            if 'rule=' in l and 'KNOWN' not in l:
                r = l.strip(); break
        e = {'check': check, 'tier': 'quick', 'exit': int(ex.group(1)) if ex else None, 'detected': bool(ex and ex.group(1) == '1')}
        if r:
            mm = re.match(r'rule=(\S+) scenario=(.*) deviations=(\d+)', r)
            if mm: e.update({'rule': mm.group(1), 'scenario': mm.group(2), 'deviations': int(mm.group(3))})
        det.append(e)
    meta = {
        'id': sid, 'property': prop, 'title': title,
        'files': sorted(set(re.findall(r'^\+\+\+ b/(\S+)', open(d + 'patch.diff').read(), re.M))),
        'breaks': section(notes, 'clause'),
        'needs_to_manifest': section(notes, 'needed', 'needs to manifest', 'it needs'),
        'produced_by': 'sub-agent given only the property text and a scratch worktree under /tmp (its notes: NOTES.agent.md)',
        'rebased_onto_current_main': any(os.path.basename(x).startswith('patch.orig') for x in glob.glob(d + '*')),
        'confirmed_by_me': {
            'how': 'tools/seedconfirm.sh: scratch worktree of /repo main, git apply patch.diff, go build ./..., full suite (go test -vet=off -count=1 ./... in a private netns, one retry for the known flaky test), demo_test.go copied into its package and run with the patch, then with the patch reverted',
            'suite_failing_packages_with_patch': int(m.group(1)) if m else None,
            'demo_with_patch': ('FAIL' if m and 'FAIL' in m.group(2) else (m.group(2).strip() if m else None)),
            'demo_without_patch': ('ok' if m and m.group(3).strip().startswith('ok') else (m.group(3).strip() if m else None)),
            'raw': conf,
        },
        'detected_by': det,
        'how_to_test': 'git -C /repo apply /verif/seeded/%s/patch.diff; /verif/bin/vcheck run %s; git -C /repo checkout -- .   (or tools/mutant.sh /verif/seeded/%s/patch.diff %s)' % (sid, prop, sid, prop),
    }
    if sid in extra_notes: meta['note'] = extra_notes[sid]
    json.dump(meta, open(d + 'meta.json', 'w'), indent=1, ensure_ascii=False)
    print(sid, 'confirmed' if m and 'FAIL' in m.group(2) and m.group(3).strip().startswith('ok') and m.group(1) == '0' else 'UNCONFIRMED', [(e['check'], e['detected']) for e in det])
