#!/bin/bash
# usage: seedconfirm.sh <name> <patch.diff> <demo file> <pkg dir rel> [demo run regex]
# Confirms in a scratch worktree: patch applies+builds, suite passes with it, demo fails with it, demo passes without it.
set -u
name=$1; patch=$2; demo=$3; pkg=$4; rx=${5:-.}
export PATH=/opt/veriftools/go1.26.8/bin:$PATH GOFLAGS=-mod=mod GOPROXY=off GOSUMDB=off GOTOOLCHAIN=local
wt=/tmp/sc/$name
rm -rf $wt; git -C /repo worktree prune; git -C /repo worktree add -q --detach $wt main || exit 2
trap 'git -C /repo worktree remove --force '$wt' 2>/dev/null' EXIT
cd $wt
git apply $patch || { echo "RESULT $name patch-does-not-apply"; exit 1; }
go build ./... || { echo "RESULT $name build-fails"; exit 1; }
suite=$(unshare -n -- sh -c "ip link set lo up; cd $wt && go test -vet=off -count=1 ./... 2>&1" | grep -v "no test files")
if echo "$suite" | grep -q "^FAIL\|^---"; then
  # retry once (timing flakes)
  suite=$(unshare -n -- sh -c "ip link set lo up; cd $wt && go test -vet=off -count=1 ./... 2>&1" | grep -v "no test files")
fi
sfail=$(echo "$suite" | grep -c "^FAIL")
mkdir -p $wt/$pkg; cp $demo $wt/$pkg/zz_demo_test.go
with=$(unshare -n -- sh -c "ip link set lo up; cd $wt/$pkg && timeout 600 go test -vet=off -count=1 -run '$rx' . 2>&1" | tail -3 | tr '\n' ' ')
git apply -R $patch
without=$(unshare -n -- sh -c "ip link set lo up; cd $wt/$pkg && timeout 600 go test -vet=off -count=1 -run '$rx' . 2>&1" | tail -3 | tr '\n' ' ')
echo "RESULT $name suite_fail_pkgs=$sfail | demo_with_patch: $with | demo_without_patch: $without"
echo "$suite" | grep "^FAIL\|^--- FAIL" | head -5
