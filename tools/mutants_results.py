#!/usr/bin/env python3
# mutants_results.py <dir with <mutant>.txt from mutants_run.sh> -> mutants/RESULTS.json
import json, os, re, sys
d = sys.argv[1]
NOTES = {  # mutants that the checks do not catch, with the reason they are considered equivalent
    'C07-M1-stop-status-not-sticky': 'not caught: the edit turned out not to change any observable result of Start/Stop/cancel sequences (the status is re-written on every path it reads) - an equivalent mutant',
    'C18-M3-is-newer-ignores-generation': 'not caught: with a monotonic clock the Timestamp fallback of IsNewerThan orders incarnations exactly like the generation does - equivalent within the explored configurations',
}
res = []
for f in sorted(os.listdir('/verif/mutants')):
    if not f.endswith('.diff'):
        continue
    n = f[:-5]
    check = n.split('-')[0]
    p = os.path.join(d, n + '.txt')
    txt = open(p).read() if os.path.exists(p) else ''
    m = re.search(r'exit=(\d+)', txt)
    code = int(m.group(1)) if m else -1
    first = ''
    for line in txt.splitlines():
        if line.strip().startswith('rule='):
            first = line.strip()
            break
    if 'patch does not apply' in txt or code == 2 or code == -1:
        res.append({'mutant': n, 'check': check, 'result': 'error', 'first': txt.strip().splitlines()[-1] if txt.strip() else 'no output'})
    elif code == 1:
        res.append({'mutant': n, 'check': check, 'result': 'caught', 'first': first})
    else:
        res.append({'mutant': n, 'check': check, 'result': 'not caught', 'first': NOTES.get(n, 'not caught')})
json.dump(res, open('/verif/mutants/RESULTS.json', 'w'), indent=1)
print(len(res), 'mutants;', sum(1 for r in res if r['result'] == 'caught'), 'caught;', [r['mutant'] for r in res if r['result'] != 'caught'])
