#!/bin/bash
# usage: ingest.sh Cxx   (round-2 seeds: out_Cxx/a -> seeded/Cxx-c, out_Cxx/b -> seeded/Cxx-d)
p=$1; rd=${2:-/tmp/seed2}; la=${3:-c}; lb=${4:-d}; cd /verif
pkgof() { case "$1" in
 mailbox_test|mailbox) echo internal/mailbox;; actor_test|actor) echo internal/actor;; bootstrap_test|bootstrap) echo pkg/bootstrap;;
 serialize_test|serialize) echo internal/remoting/serialize;; messages_test|messages) echo internal/messages;;
 cluster|cluster_test) echo internal/cluster;; queues|queues_test) echo internal/queues;; future|future_test) echo internal/future;;
 remoting|remoting_test) echo internal/remoting;; vivid|vivid_test) echo .;; utils|utils_test) echo internal/utils;; scheduler|scheduler_test) echo internal/scheduler;; esac; }
for pair in a:$la b:$lb; do src=${pair%%:*}; dst=${pair##*:}; d=$rd/out_$p/$src; n=$p-$dst
  [ -f $d/patch.diff ] || { echo "$n: no patch"; continue; }
  mkdir -p seeded/$n; cp $d/patch.diff seeded/$n/patch.diff; cp $d/NOTES.md seeded/$n/NOTES.agent.md
  demo=$(ls $d/*_test.go 2>/dev/null | head -1); [ -n "$demo" ] && cp $demo seeded/$n/demo_test.go
  for extra in $(ls $d/*_test.go 2>/dev/null | tail -n +2); do cp $extra seeded/$n/; done
  pk=$(grep -m1 '^package' seeded/$n/demo_test.go | awk '{print $2}')
  rx="^($(grep -o 'func Test[A-Za-z0-9_]*' seeded/$n/demo_test.go | sed 's/func //' | paste -sd'|'))\$"
  tools/seedconfirm.sh $n /verif/seeded/$n/patch.diff /verif/seeded/$n/demo_test.go $(pkgof $pk) "$rx" > seeded/.confirm/$n.txt 2>&1
  grep "^RESULT" seeded/.confirm/$n.txt | cut -c1-300
  VERIF_WORKERS=8 LINES_MAX=3 tools/mutant.sh /verif/seeded/$n/patch.diff $p > /tmp/matrix/$n.$p.txt 2>&1
  echo "$n.$p: $(grep -m1 '^==' /tmp/matrix/$n.$p.txt | sed 's/.*exit=/exit=/') $(grep -v KNOWN /tmp/matrix/$n.$p.txt | grep -m1 'rule=' | cut -c1-200)"
done
