#!/bin/bash
# usage: mutants_run.sh [outdir]  -- run every mutants/*.diff against the quick check of the property it is named after
# (scratch worktree per mutant, see mutant.sh), keep the first lines of each run in outdir, then write mutants/RESULTS.json.
out=${1:-/tmp/mutres}
mkdir -p $out
cd /verif
for m in mutants/*.diff; do n=$(basename $m .diff); p=${n%%-*}
  VERIF_WORKERS=${VERIF_WORKERS:-6} LINES_MAX=14 tools/mutant.sh /verif/$m $p > $out/$n.txt 2>&1
done
python3 tools/mutants_results.py $out
echo MUTDONE
