#!/usr/bin/env python3
# Regenerates the generated tables of DESIGN.md (between <!-- BEGIN x --> / <!-- END x --> markers) from
# seeded/*/meta.json, mutants/RESULTS.json and evidence/*.json.
import json, glob, os, re
def seeds():
    rows = ['| seed | change (files) | needs to manifest | caught by (quick tier): check / rule / scenario / deviations |', '|---|---|---|---|']
    for f in sorted(glob.glob('/verif/seeded/C*/meta.json')):
        m = json.load(open(f))
        t = re.sub(r'^C\d+ */ *(seeded defect|seed)? *[abcdABCD] *[—-] *', '', m['title'])
        needs = m['needs_to_manifest']
        needs = (needs[:260] + '…') if len(needs) > 260 else needs
        det = []
        for d in m['detected_by']:
            if d.get('detected'):
                det.append('**%s** `%s` @ `%s` (dev %s)' % (d['check'], d.get('rule', '?'), (d.get('scenario', '?')[:90]), d.get('deviations', '?')))
            else:
                det.append('%s: not caught' % d['check'])
        rows.append('| %s | %s (%s) | %s | %s |' % (m['id'], t.replace('|', '/'), ', '.join(os.path.basename(x) for x in m['files']), needs.replace('|', '/'), '; '.join(det).replace('|', '/')))
    return '\n'.join(rows)
def mutants():
    p = '/verif/mutants/RESULTS.json'
    if not os.path.exists(p): return '(not run yet)'
    rows = ['| mutant | check | result | first rule / scenario |', '|---|---|---|---|']
    for r in json.load(open(p)):
        rows.append('| %s | %s | %s | %s |' % (r['mutant'], r['check'], r['result'], r.get('first', '').replace('|', '/')))
    return '\n'.join(rows)
def evidence():
    rows = ['| id | level | tier | scenarios | executions / evaluations | decision nodes (states) | distinct outcomes | min bound completed | exhaustive | wall (s) |', '|---|---|---|---|---|---|---|---|---|---|']
    for tier, d in (('quick', '/verif/evidence'), ('thorough', '/verif/evidence/thorough')):
        for f in sorted(glob.glob(d + '/C*.json')):
            e = json.load(open(f)); c = e['coverage']
            rows.append('| %s | %s | %s | %s | %s | %s | %s | %s | %s | %.0f |' % (e['property_id'], e['level'], e['tier'], c.get('scenarios', c.get('checks', '')), c.get('evaluations', ''), c.get('states', ''), c.get('distinct_nontrivial', ''), c.get('deviation_bound_completed_in_every_scenario', c.get('bound', '')), c.get('exhaustive', ''), e.get('wall_s', 0)))
    return '\n'.join(rows)
gen = {'seeds': seeds, 'mutants': mutants, 'evidence': evidence}
s = open('/verif/DESIGN.md').read()
for k, f in gen.items():
    b, e = '<!-- BEGIN %s -->' % k, '<!-- END %s -->' % k
    if b in s:
        i, j = s.index(b) + len(b), s.index(e)
        s = s[:i] + '\n' + f() + '\n' + s[j:]
open('/verif/DESIGN.md', 'w').write(s)
