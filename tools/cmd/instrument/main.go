// instrument rewrites the non-test Go files of selected vivid packages so that they run
// under the vrt scheduler, and writes the rewritten copies plus an overlay map.
//
//	instrument -repo /repo -out DIR [-taps file] [-net pkgsuffix,...]
//
// It never touches /repo. It fails (exit 2) on any construct it cannot handle rather than
// leaving an un-hooked blocking operation behind.
package main

import (
	"bytes"
	"encoding/json"
	"flag"
	"fmt"
	"go/ast"
	"go/printer"
	"go/token"
	"go/types"
	"os"
	"path/filepath"
	"sort"
	"strconv"
	"strings"

	"golang.org/x/tools/go/ast/astutil"
	"golang.org/x/tools/go/packages"
)

const shimBase = "github.com/kercylan98/vivid/internal/verif/"

var importMap = map[string][2]string{ // original path -> (shim package, local name)
	"sync":         {"vsync", "sync"},
	"sync/atomic":  {"vatomic", "atomic"},
	"time":         {"vtime", "time"},
	"math/rand":    {"vrand", "rand"},
	"math/rand/v2": {"vrand", "rand"},
}

// functions that get an entry tap: "pkgname.(*Recv).Func" or "pkgname.Func"
var defaultTaps = []string{
	"actor.(*Context).HandleEnvelop",
	"actor.(*eventStream).Publish",
	"actor.(*System).HandleFailedRemotingEnvelop",
	"actor.(*System).HandleRemotingEnvelop",
	"mailbox.(*UnboundedMailbox).Enqueue",
	"mailbox.(*UnboundedMailbox).process",
	"remoting.(*Mailbox).Enqueue",
	"remoting.(*tcpConnectionActor).onReadConn",
	"cluster.(*NodeActor).OnReceive",
}

type stats struct {
	Files     int            `json:"files"`
	Rewritten int            `json:"rewritten"`
	Go        int            `json:"go_stmts"`
	Recv      int            `json:"recvs"`
	Send      int            `json:"sends"`
	Close     int            `json:"closes"`
	Select    int            `json:"selects"`
	MapRange  int            `json:"map_ranges"`
	Taps      int            `json:"taps"`
	Imports   map[string]int `json:"imports"`
	MapKeys   map[string]int `json:"map_key_types"`
	RW        int            `json:"rw_events"`
}

var st = stats{Imports: map[string]int{}, MapKeys: map[string]int{}}

func die(format string, a ...any) {
	fmt.Fprintf(os.Stderr, "HARNESS-ERROR instrument: "+format+"\n", a...)
	os.Exit(2)
}

func main() {
	repo := flag.String("repo", "/repo", "repository root")
	out := flag.String("out", "", "output directory")
	netPkgs := flag.String("net", "internal/remoting", "comma separated package dir prefixes whose net import is redirected to vnet")
	race := flag.Bool("race", true, "insert R/W events for the happens-before race detector")
	flag.Parse()
	if *out == "" {
		die("-out required")
	}
	patterns := []string{".", "./internal/...", "./pkg/ves", "./pkg/metrics"}
	cfg := &packages.Config{
		Mode: packages.NeedName | packages.NeedFiles | packages.NeedCompiledGoFiles | packages.NeedSyntax | packages.NeedTypes | packages.NeedTypesInfo | packages.NeedImports,
		Dir:  *repo,
		Env:  os.Environ(),
	}
	pkgs, err := packages.Load(cfg, patterns...)
	if err != nil {
		die("load: %v", err)
	}
	overlay := map[string]string{}
	tapSet := map[string]bool{}
	for _, t := range defaultTaps {
		tapSet[t] = true
	}
	sort.Slice(pkgs, func(i, j int) bool { return pkgs[i].PkgPath < pkgs[j].PkgPath })
	for _, p := range pkgs {
		if strings.Contains(p.PkgPath, "/internal/verif") {
			continue
		}
		if len(p.Errors) > 0 {
			die("package %s does not type-check: %v", p.PkgPath, p.Errors[0])
		}
		for i, f := range p.Syntax {
			fn := p.CompiledGoFiles[i]
			if strings.HasSuffix(fn, "_test.go") {
				continue
			}
			rel, err := filepath.Rel(*repo, fn)
			if err != nil || strings.HasPrefix(rel, "..") {
				continue
			}
			st.Files++
			useNet := false
			for _, pre := range strings.Split(*netPkgs, ",") {
				if pre != "" && strings.HasPrefix(filepath.ToSlash(filepath.Dir(rel)), pre) {
					useNet = true
				}
			}
			r := &rewriter{pkg: p, file: f, fset: p.Fset, useNet: useNet, taps: tapSet, race: *race}
			changed := r.run()
			if !changed {
				continue
			}
			st.Rewritten++
			var buf bytes.Buffer
			f.Comments = nil
			pc := printer.Config{Mode: printer.SourcePos | printer.TabIndent | printer.UseSpaces, Tabwidth: 8}
			if err := pc.Fprint(&buf, p.Fset, f); err != nil {
				die("print %s: %v", rel, err)
			}
			dst := filepath.Join(*out, "src", rel)
			if err := os.MkdirAll(filepath.Dir(dst), 0o755); err != nil {
				die("%v", err)
			}
			if err := os.WriteFile(dst, buf.Bytes(), 0o644); err != nil {
				die("%v", err)
			}
			overlay[fn] = dst
		}
	}
	for t := range tapSet {
		_ = t
	}
	ob, _ := json.MarshalIndent(map[string]any{"Replace": overlay}, "", " ")
	if err := os.WriteFile(filepath.Join(*out, "overlay.json"), ob, 0o644); err != nil {
		die("%v", err)
	}
	sb, _ := json.MarshalIndent(st, "", " ")
	os.WriteFile(filepath.Join(*out, "instrument_stats.json"), sb, 0o644)
	fmt.Printf("instrumented %d/%d files: go=%d recv=%d send=%d close=%d select=%d maprange=%d taps=%d rw=%d\n",
		st.Rewritten, st.Files, st.Go, st.Recv, st.Send, st.Close, st.Select, st.MapRange, st.Taps, st.RW)
}

type rewriter struct {
	pkg     *packages.Package
	file    *ast.File
	fset    *token.FileSet
	useNet  bool
	taps    map[string]bool
	race    bool
	needVrt bool
	changed bool
	tmp     int
}

func (r *rewriter) vrt(name string) ast.Expr {
	r.needVrt = true
	return &ast.SelectorExpr{X: ast.NewIdent("__vrt"), Sel: ast.NewIdent(name)}
}

func (r *rewriter) call(name string, args ...ast.Expr) *ast.CallExpr {
	return &ast.CallExpr{Fun: r.vrt(name), Args: args}
}

func (r *rewriter) pos(n ast.Node) string { return r.fset.Position(n.Pos()).String() }

func (r *rewriter) run() bool {
	// 1. imports
	for _, imp := range r.file.Imports {
		path, _ := strconv.Unquote(imp.Path.Value)
		m, ok := importMap[path]
		if !ok && r.useNet && path == "net" {
			m, ok = [2]string{"vnet", "net"}, true
		}
		if !ok {
			continue
		}
		if imp.Name != nil && (imp.Name.Name == "_" || imp.Name.Name == ".") {
			die("%s: unsupported import form for %s", r.pos(imp), path)
		}
		if imp.Name == nil {
			imp.Name = ast.NewIdent(m[1])
		}
		imp.Path.Value = strconv.Quote(shimBase + m[0])
		imp.EndPos = 0
		st.Imports[path]++
		r.changed = true
	}
	// 2a. R/W events for the race detector (on the original nodes, before any restructuring)
	if r.race {
		r.insertRW()
	}
	// 2. statements and expressions
	astutil.Apply(r.file, r.pre, r.post)
	// 3. entry taps
	for _, d := range r.file.Decls {
		fd, ok := d.(*ast.FuncDecl)
		if !ok || fd.Body == nil {
			continue
		}
		name := r.funcName(fd)
		if !r.taps[name] {
			continue
		}
		args := []ast.Expr{&ast.BasicLit{Kind: token.STRING, Value: strconv.Quote(name)}}
		if fd.Recv != nil && len(fd.Recv.List) == 1 && len(fd.Recv.List[0].Names) == 1 && fd.Recv.List[0].Names[0].Name != "_" {
			args = append(args, ast.NewIdent(fd.Recv.List[0].Names[0].Name))
		} else if fd.Recv != nil {
			args = append(args, ast.NewIdent("nil"))
		}
		for _, p := range fd.Type.Params.List {
			for _, n := range p.Names {
				if n.Name == "_" {
					args = append(args, ast.NewIdent("nil"))
					continue
				}
				args = append(args, ast.NewIdent(n.Name))
			}
		}
		fd.Body.List = append([]ast.Stmt{&ast.ExprStmt{X: r.call("Enter", args...)}}, fd.Body.List...)
		st.Taps++
		r.changed = true
	}
	if r.needVrt {
		astutil.AddNamedImport(r.fset, r.file, "__vrt", shimBase+"vrt")
		r.changed = true
	}
	return r.changed
}

func (r *rewriter) funcName(fd *ast.FuncDecl) string {
	pn := r.pkg.Name
	if fd.Recv == nil || len(fd.Recv.List) == 0 {
		return pn + "." + fd.Name.Name
	}
	t := fd.Recv.List[0].Type
	ptr := false
	if s, ok := t.(*ast.StarExpr); ok {
		ptr = true
		t = s.X
	}
	switch x := t.(type) {
	case *ast.IndexExpr:
		t = x.X
	case *ast.IndexListExpr:
		t = x.X
	}
	id, _ := t.(*ast.Ident)
	if id == nil {
		return pn + ".?." + fd.Name.Name
	}
	if ptr {
		return pn + ".(*" + id.Name + ")." + fd.Name.Name
	}
	return pn + "." + id.Name + "." + fd.Name.Name
}

func (r *rewriter) isBuiltin(id *ast.Ident, name string) bool {
	if id.Name != name {
		return false
	}
	obj := r.pkg.TypesInfo.Uses[id]
	_, ok := obj.(*types.Builtin)
	return ok
}

func (r *rewriter) pre(c *astutil.Cursor) bool {
	switch n := c.Node().(type) {
	case *ast.SelectStmt:
		// handled in post (children first so that nested statements are rewritten), but the
		// comm clauses themselves must not be rewritten as plain recv/send: mark them.
		for _, cl := range n.Body.List {
			cc := cl.(*ast.CommClause)
			if cc.Comm != nil {
				commOf[cc.Comm] = true
			}
		}
	}
	return true
}

var commOf = map[ast.Stmt]bool{}

func (r *rewriter) post(c *astutil.Cursor) bool {
	switch n := c.Node().(type) {
	case *ast.GoStmt:
		c.Replace(r.rewriteGo(n))
	case *ast.SendStmt:
		if commOf[n] {
			return true
		}
		st.Send++
		r.changed = true
		c.Replace(&ast.ExprStmt{X: r.call("Send", n.Chan, n.Value)})
	case *ast.UnaryExpr:
		if n.Op != token.ARROW {
			return true
		}
		// is this the comm of a select clause? then leave for rewriteSelect
		switch p := c.Parent().(type) {
		case *ast.ExprStmt:
			if commOf[p] {
				return true
			}
		case *ast.AssignStmt:
			if commOf[p] {
				return true
			}
			if len(p.Lhs) == 2 && len(p.Rhs) == 1 {
				st.Recv++
				r.changed = true
				c.Replace(r.call("Recv2", n.X))
				return true
			}
		case *ast.ValueSpec:
			if len(p.Names) == 2 && len(p.Values) == 1 {
				st.Recv++
				r.changed = true
				c.Replace(r.call("Recv2", n.X))
				return true
			}
		}
		st.Recv++
		r.changed = true
		c.Replace(r.call("Recv", n.X))
	case *ast.CallExpr:
		if id, ok := n.Fun.(*ast.Ident); ok && r.isBuiltin(id, "close") && len(n.Args) == 1 {
			st.Close++
			r.changed = true
			n.Fun = r.vrt("Close")
		}
	case *ast.SelectStmt:
		c.Replace(r.rewriteSelect(n))
	case *ast.RangeStmt:
		tv, ok := r.pkg.TypesInfo.Types[n.X]
		if !ok {
			return true
		}
		switch u := tv.Type.Underlying().(type) {
		case *types.Map:
			st.MapRange++
			st.MapKeys[types.TypeString(u.Key(), nil)]++
			r.changed = true
			n.X = r.call("RangeMap", n.X)
		case *types.Chan:
			die("%s: range over channel is not supported by the rewriter", r.pos(n))
		}
	}
	return true
}

func (r *rewriter) rewriteGo(g *ast.GoStmt) ast.Stmt {
	st.Go++
	r.changed = true
	call := g.Call
	var pre []ast.Stmt
	// hoist argument evaluation to the go statement (Go evaluates them there)
	newArgs := make([]ast.Expr, len(call.Args))
	for i, a := range call.Args {
		switch x := a.(type) {
		case *ast.BasicLit:
			newArgs[i] = a
			continue
		case *ast.Ident:
			if x.Name == "nil" || x.Name == "true" || x.Name == "false" {
				newArgs[i] = a
				continue
			}
		case *ast.FuncLit:
			newArgs[i] = a
			continue
		}
		if tv, ok := r.pkg.TypesInfo.Types[a]; ok && tv.Value != nil {
			newArgs[i] = a // constant expression
			continue
		}
		r.tmp++
		name := fmt.Sprintf("__go_a%d", r.tmp)
		pre = append(pre, &ast.AssignStmt{Lhs: []ast.Expr{ast.NewIdent(name)}, Tok: token.DEFINE, Rhs: []ast.Expr{a}})
		newArgs[i] = ast.NewIdent(name)
	}
	fun := call.Fun
	// hoist the receiver / function value too unless it is a func literal or a plain selector chain
	label := "go"
	switch f := fun.(type) {
	case *ast.SelectorExpr:
		label = f.Sel.Name
	case *ast.Ident:
		label = f.Name
	}
	newCall := &ast.CallExpr{Fun: fun, Args: newArgs, Ellipsis: call.Ellipsis}
	body := &ast.FuncLit{Type: &ast.FuncType{Params: &ast.FieldList{}}, Body: &ast.BlockStmt{List: []ast.Stmt{&ast.ExprStmt{X: newCall}}}}
	pos := r.fset.Position(g.Pos())
	name := fmt.Sprintf("%s@%s:%d", label, filepath.Base(pos.Filename), pos.Line)
	goCall := &ast.ExprStmt{X: r.call("Go", &ast.BasicLit{Kind: token.STRING, Value: strconv.Quote(name)}, body)}
	return &ast.BlockStmt{List: append(pre, goCall)}
}

func (r *rewriter) rewriteSelect(s *ast.SelectStmt) ast.Stmt {
	st.Select++
	r.changed = true
	r.tmp++
	iName, vName, okName := fmt.Sprintf("__sel_i%d", r.tmp), fmt.Sprintf("__sel_v%d", r.tmp), fmt.Sprintf("__sel_ok%d", r.tmp)
	hasDefault := false
	var cases []ast.Expr
	var clauses []ast.Stmt
	idx := 0
	for _, cl := range s.Body.List {
		cc := cl.(*ast.CommClause)
		if cc.Comm == nil {
			hasDefault = true
			clauses = append(clauses, &ast.CaseClause{List: []ast.Expr{&ast.BasicLit{Kind: token.INT, Value: "-1"}}, Body: cc.Body})
			continue
		}
		delete(commOf, cc.Comm)
		var body []ast.Stmt
		switch comm := cc.Comm.(type) {
		case *ast.SendStmt:
			cases = append(cases, r.call("SendCase", comm.Chan, comm.Value))
		case *ast.ExprStmt:
			u, ok := comm.X.(*ast.UnaryExpr)
			if !ok || u.Op != token.ARROW {
				die("%s: unsupported select comm", r.pos(comm))
			}
			cases = append(cases, r.call("RecvCase", u.X))
		case *ast.AssignStmt:
			u, ok := comm.Rhs[0].(*ast.UnaryExpr)
			if !ok || u.Op != token.ARROW {
				die("%s: unsupported select comm", r.pos(comm))
			}
			cases = append(cases, r.call("RecvCase", u.X))
			rhs := []ast.Expr{r.call("As", u.X, ast.NewIdent(vName))}
			if len(comm.Lhs) == 2 {
				rhs = append(rhs, ast.NewIdent(okName))
			}
			body = append(body, &ast.AssignStmt{Lhs: comm.Lhs, Tok: comm.Tok, Rhs: rhs})
			// silence "declared and not used" for := forms
			if comm.Tok == token.DEFINE {
				for _, l := range comm.Lhs {
					if id, ok := l.(*ast.Ident); ok && id.Name != "_" {
						body = append(body, &ast.AssignStmt{Lhs: []ast.Expr{ast.NewIdent("_")}, Tok: token.ASSIGN, Rhs: []ast.Expr{ast.NewIdent(id.Name)}})
					}
				}
			}
		default:
			die("%s: unsupported select comm", r.pos(comm))
		}
		body = append(body, cc.Body...)
		clauses = append(clauses, &ast.CaseClause{List: []ast.Expr{&ast.BasicLit{Kind: token.INT, Value: strconv.Itoa(idx)}}, Body: body})
		idx++
	}
	hd := "false"
	if hasDefault {
		hd = "true"
	}
	args := append([]ast.Expr{ast.NewIdent(hd)}, cases...)
	init := &ast.AssignStmt{
		Lhs: []ast.Expr{ast.NewIdent(iName), ast.NewIdent(vName), ast.NewIdent(okName)},
		Tok: token.DEFINE,
		Rhs: []ast.Expr{r.call("Select", args...)},
	}
	use := &ast.AssignStmt{Lhs: []ast.Expr{ast.NewIdent("_"), ast.NewIdent("_")}, Tok: token.ASSIGN, Rhs: []ast.Expr{ast.NewIdent(vName), ast.NewIdent(okName)}}
	sw := &ast.SwitchStmt{Tag: ast.NewIdent(iName), Body: &ast.BlockStmt{List: clauses}}
	// a block keeps the temporaries local; a label on the select (rare) would be lost: refuse
	return &ast.BlockStmt{List: []ast.Stmt{init, use, sw}}
}

// ---- R/W events for the happens-before race detector ---------------------------------------------

type acc struct {
	expr  ast.Expr // cloned expression whose address identifies the location
	isMap bool
	write bool
	site  string
}

const modPrefix = "github.com/kercylan98/vivid"

func (r *rewriter) insertRW() {
	ast.Inspect(r.file, func(n ast.Node) bool {
		switch b := n.(type) {
		case *ast.BlockStmt:
			b.List = r.rwList(b.List)
		case *ast.CaseClause:
			b.Body = r.rwList(b.Body)
		case *ast.CommClause:
			b.Body = r.rwList(b.Body)
		}
		return true
	})
}

func (r *rewriter) rwList(list []ast.Stmt) []ast.Stmt {
	out := make([]ast.Stmt, 0, len(list))
	for _, s := range list {
		var accs []acc
		r.stmtAccesses(s, &accs)
		seen := map[string]bool{}
		for _, a := range accs {
			key := fmt.Sprintf("%v|%s", a.write, a.site)
			if seen[key] {
				continue
			}
			seen[key] = true
			fn := "R"
			if a.write {
				fn = "W"
			}
			var addr ast.Expr
			if a.isMap {
				addr = r.call("MapAddr", a.expr)
			} else {
				addr = r.call("Addr", &ast.UnaryExpr{Op: token.AND, X: a.expr})
			}
			out = append(out, &ast.ExprStmt{X: r.call(fn, addr, &ast.BasicLit{Kind: token.STRING, Value: strconv.Quote(a.site)})})
			st.RW++
			r.changed = true
		}
		out = append(out, s)
	}
	return out
}

func (r *rewriter) stmtAccesses(s ast.Stmt, out *[]acc) {
	switch x := s.(type) {
	case *ast.LabeledStmt:
		r.stmtAccesses(x.Stmt, out)
	case *ast.ExprStmt:
		r.reads(x.X, out)
	case *ast.AssignStmt:
		for _, e := range x.Rhs {
			r.reads(e, out)
		}
		for _, e := range x.Lhs {
			if x.Tok == token.DEFINE {
				continue
			}
			r.lhs(e, out, x.Tok != token.ASSIGN)
		}
	case *ast.IncDecStmt:
		r.lhs(x.X, out, true)
	case *ast.ReturnStmt:
		for _, e := range x.Results {
			r.reads(e, out)
		}
	case *ast.IfStmt:
		if x.Init != nil {
			r.stmtAccesses(x.Init, out)
		}
		r.readsScoped(x.Cond, x.Init, out)
	case *ast.SwitchStmt:
		if x.Init != nil {
			r.stmtAccesses(x.Init, out)
		}
		if x.Tag != nil {
			r.readsScoped(x.Tag, x.Init, out)
		}
	case *ast.TypeSwitchStmt:
		if x.Init != nil {
			r.stmtAccesses(x.Init, out)
		}
		var tmp []acc
		r.stmtAccesses(x.Assign, &tmp)
		*out = append(*out, filterDefined(tmp, x.Init)...)
	case *ast.ForStmt:
		if x.Init != nil {
			r.stmtAccesses(x.Init, out)
		}
		if x.Cond != nil {
			r.readsScoped(x.Cond, x.Init, out)
		}
	case *ast.RangeStmt:
		r.reads(x.X, out)
		if tv, ok := r.pkg.TypesInfo.Types[x.X]; ok {
			if _, isMap := tv.Type.Underlying().(*types.Map); isMap {
				if c := r.cloneSimple(x.X); c != nil {
					*out = append(*out, acc{expr: c, isMap: true, site: r.site(x.X)})
				}
			}
		}
	case *ast.SendStmt:
		r.reads(x.Chan, out)
		r.reads(x.Value, out)
	case *ast.GoStmt:
		for _, a := range x.Call.Args {
			r.reads(a, out)
		}
	case *ast.DeferStmt:
		for _, a := range x.Call.Args {
			r.reads(a, out)
		}
	case *ast.DeclStmt:
		if gd, ok := x.Decl.(*ast.GenDecl); ok {
			for _, sp := range gd.Specs {
				if vs, ok := sp.(*ast.ValueSpec); ok {
					for _, v := range vs.Values {
						r.reads(v, out)
					}
				}
			}
		}
	}
}

func (r *rewriter) site(e ast.Expr) string {
	p := r.fset.Position(e.Pos())
	var b bytes.Buffer
	printer.Fprint(&b, r.fset, e)
	s := b.String()
	if len(s) > 40 {
		s = s[:40]
	}
	return fmt.Sprintf("%s:%d %s", filepath.Base(p.Filename), p.Line, s)
}

// isTrackedField reports whether sel selects a struct field that is plain shared memory of a
// vivid type.
func (r *rewriter) isTrackedField(sel *ast.SelectorExpr) bool {
	s, ok := r.pkg.TypesInfo.Selections[sel]
	if !ok || s.Kind() != types.FieldVal {
		return false
	}
	f, ok := s.Obj().(*types.Var)
	if !ok || f.Pkg() == nil || !strings.HasPrefix(f.Pkg().Path(), modPrefix) {
		return false
	}
	// synchronisation primitives and channels are not plain memory
	t := f.Type()
	if _, isChan := t.Underlying().(*types.Chan); isChan {
		return false
	}
	if n, ok := t.(*types.Named); ok && n.Obj().Pkg() != nil {
		switch n.Obj().Pkg().Path() {
		case "sync", "sync/atomic":
			return false
		}
	}
	if a, ok := t.(*types.Alias); ok {
		if n, ok := types.Unalias(a).(*types.Named); ok && n.Obj().Pkg() != nil {
			switch n.Obj().Pkg().Path() {
			case "sync", "sync/atomic":
				return false
			}
		}
	}
	return true
}

// addressable: can we write &e without changing behaviour?
func (r *rewriter) addressable(e ast.Expr) bool {
	switch x := e.(type) {
	case *ast.Ident:
		_, isVar := r.pkg.TypesInfo.Uses[x].(*types.Var)
		return isVar
	case *ast.ParenExpr:
		return r.addressable(x.X)
	case *ast.StarExpr:
		return r.cloneSimple(x.X) != nil
	case *ast.SelectorExpr:
		s, ok := r.pkg.TypesInfo.Selections[x]
		if !ok || s.Kind() != types.FieldVal {
			return false
		}
		if s.Indirect() {
			return r.cloneSimple(x.X) != nil
		}
		if tv, ok := r.pkg.TypesInfo.Types[x.X]; ok {
			if _, isPtr := tv.Type.Underlying().(*types.Pointer); isPtr {
				return r.cloneSimple(x.X) != nil
			}
		}
		return r.addressable(x.X)
	case *ast.IndexExpr:
		tv, ok := r.pkg.TypesInfo.Types[x.X]
		if !ok {
			return false
		}
		switch tv.Type.Underlying().(type) {
		case *types.Slice:
			return r.cloneSimple(x.X) != nil && r.cloneSimple(x.Index) != nil
		case *types.Array:
			return r.addressable(x.X) && r.cloneSimple(x.Index) != nil
		}
		return false
	}
	return false
}

// cloneSimple clones side-effect-free expressions made of identifiers, field selections,
// dereferences, literals and simple indexing; nil for anything else.
func (r *rewriter) cloneSimple(e ast.Expr) ast.Expr {
	switch x := e.(type) {
	case *ast.Ident:
		return ast.NewIdent(x.Name)
	case *ast.BasicLit:
		return &ast.BasicLit{Kind: x.Kind, Value: x.Value}
	case *ast.ParenExpr:
		if c := r.cloneSimple(x.X); c != nil {
			return &ast.ParenExpr{X: c}
		}
	case *ast.StarExpr:
		if c := r.cloneSimple(x.X); c != nil {
			return &ast.StarExpr{X: c}
		}
	case *ast.SelectorExpr:
		// package-qualified identifier or field selection (no method values)
		if id, ok := x.X.(*ast.Ident); ok {
			if _, isPkg := r.pkg.TypesInfo.Uses[id].(*types.PkgName); isPkg {
				return &ast.SelectorExpr{X: ast.NewIdent(id.Name), Sel: ast.NewIdent(x.Sel.Name)}
			}
		}
		if s, ok := r.pkg.TypesInfo.Selections[x]; !ok || s.Kind() != types.FieldVal {
			return nil
		}
		if c := r.cloneSimple(x.X); c != nil {
			return &ast.SelectorExpr{X: c, Sel: ast.NewIdent(x.Sel.Name)}
		}
	case *ast.IndexExpr:
		tv, ok := r.pkg.TypesInfo.Types[x.X]
		if !ok {
			return nil
		}
		if _, isMap := tv.Type.Underlying().(*types.Map); isMap {
			return nil // a map read may be tracked itself; do not nest
		}
		cx, ci := r.cloneSimple(x.X), r.cloneSimple(x.Index)
		if cx != nil && ci != nil {
			return &ast.IndexExpr{X: cx, Index: ci}
		}
	}
	return nil
}

func (r *rewriter) field(sel *ast.SelectorExpr, write bool, out *[]acc) {
	if !r.isTrackedField(sel) || !r.addressable(sel) {
		return
	}
	c := r.cloneSimple(sel)
	if c == nil {
		return
	}
	*out = append(*out, acc{expr: c, write: write, site: r.site(sel)})
}

func (r *rewriter) mapAcc(m ast.Expr, write bool, out *[]acc) {
	tv, ok := r.pkg.TypesInfo.Types[m]
	if !ok {
		return
	}
	if _, isMap := tv.Type.Underlying().(*types.Map); !isMap {
		return
	}
	c := r.cloneSimple(m)
	if c == nil {
		return
	}
	*out = append(*out, acc{expr: c, isMap: true, write: write, site: r.site(m)})
}

func (r *rewriter) reads(e ast.Expr, out *[]acc) {
	switch x := e.(type) {
	case nil:
	case *ast.FuncLit:
		// its body is a block of its own
	case *ast.ParenExpr:
		r.reads(x.X, out)
	case *ast.SelectorExpr:
		r.field(x, false, out)
		r.reads(x.X, out)
	case *ast.StarExpr:
		r.reads(x.X, out)
	case *ast.UnaryExpr:
		if x.Op == token.AND {
			// address taken (typically for sync/atomic): not an access of the field itself
			if s, ok := x.X.(*ast.SelectorExpr); ok {
				r.reads(s.X, out)
				return
			}
			if cl, ok := x.X.(*ast.CompositeLit); ok {
				r.reads(cl, out)
			}
			return
		}
		r.reads(x.X, out)
	case *ast.BinaryExpr:
		r.reads(x.X, out)
		if x.Op == token.LAND || x.Op == token.LOR {
			return // the right operand is evaluated conditionally: hoisting it could dereference nil
		}
		r.reads(x.Y, out)
	case *ast.IndexExpr:
		r.mapAcc(x.X, false, out)
		r.reads(x.X, out)
		r.reads(x.Index, out)
	case *ast.SliceExpr:
		r.reads(x.X, out)
		r.reads(x.Low, out)
		r.reads(x.High, out)
		r.reads(x.Max, out)
	case *ast.TypeAssertExpr:
		r.reads(x.X, out)
	case *ast.KeyValueExpr:
		r.reads(x.Value, out)
	case *ast.CompositeLit:
		for _, el := range x.Elts {
			r.reads(el, out)
		}
	case *ast.CallExpr:
		if id, ok := x.Fun.(*ast.Ident); ok {
			if _, isB := r.pkg.TypesInfo.Uses[id].(*types.Builtin); isB {
				switch id.Name {
				case "len", "cap":
					if len(x.Args) == 1 {
						r.mapAcc(x.Args[0], false, out)
					}
				case "delete", "clear":
					if len(x.Args) >= 1 {
						r.mapAcc(x.Args[0], true, out)
					}
				}
			}
		}
		if s, ok := x.Fun.(*ast.SelectorExpr); ok {
			r.reads(s.X, out)        // receiver / package; the method itself is not a field
			if r.isTrackedField(s) { // calling a func-typed field
				r.field(s, false, out)
			}
		}
		for _, a := range x.Args {
			r.reads(a, out)
		}
	}
}

func (r *rewriter) lhs(e ast.Expr, out *[]acc, alsoRead bool) {
	switch x := e.(type) {
	case *ast.ParenExpr:
		r.lhs(x.X, out, alsoRead)
	case *ast.SelectorExpr:
		r.field(x, true, out)
		r.reads(x.X, out)
	case *ast.IndexExpr:
		if tv, ok := r.pkg.TypesInfo.Types[x.X]; ok {
			if _, isMap := tv.Type.Underlying().(*types.Map); isMap {
				r.mapAcc(x.X, true, out)
			}
		}
		r.reads(x.X, out)
		r.reads(x.Index, out)
	case *ast.StarExpr:
		r.reads(x.X, out)
	}
}

// readsScoped collects the reads of e that can be hoisted in front of the statement: accesses
// that mention a variable defined by the statement's own init clause cannot.
func (r *rewriter) readsScoped(e ast.Expr, init ast.Stmt, out *[]acc) {
	var tmp []acc
	r.reads(e, &tmp)
	*out = append(*out, filterDefined(tmp, init)...)
}

func filterDefined(accs []acc, init ast.Stmt) []acc {
	as, ok := init.(*ast.AssignStmt)
	if !ok || as.Tok != token.DEFINE {
		return accs
	}
	def := map[string]bool{}
	for _, l := range as.Lhs {
		if id, ok := l.(*ast.Ident); ok {
			def[id.Name] = true
		}
	}
	var out []acc
	for _, a := range accs {
		uses := false
		ast.Inspect(a.expr, func(n ast.Node) bool {
			if id, ok := n.(*ast.Ident); ok && def[id.Name] {
				uses = true
			}
			return true
		})
		if !uses {
			out = append(out, a)
		}
	}
	return out
}
