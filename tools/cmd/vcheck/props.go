package main

// Part is one harness binary (with fixed extra arguments) contributing to a property.
type Part struct {
	Harness string
	Args    []string
}

// Prop describes how a property is checked.
type Prop struct {
	Parts          []Part
	Level          string // evidence level
	QuickBudget    float64
	ThoroughBudget float64
	Rule           string
	Assumptions    []string
}

var schedAssumptions = []string{
	"interleavings are explored at the granularity of sync/atomic/channel/timer operations under sequential consistency (weaker memory-model effects are out of scope)",
	"coverage is complete only up to the deviation bound and scenario alphabet stated; larger thread counts / message counts are not covered",
	"go-quartz's own dispatch loop is replaced by a virtual-time implementation that uses the real quartz triggers (its goroutine plumbing is trusted, not explored)",
}

var properties = map[string]Prop{
	"C01": {
		Parts:       []Part{{Harness: "c01"}},
		Level:       "model_checking",
		QuickBudget: 120, ThoroughBudget: 1200,
		Rule:        "stateless DFS over all schedules of each scenario (2-4 threads sending user/system mail, calling Pause/Resume; handler reactions) up to the preemption bound; an execution is one trace of the real mailbox; distinct_nontrivial counts distinct (scenario, final handled-sequence) outcomes",
		Assumptions: schedAssumptions,
	},
}
