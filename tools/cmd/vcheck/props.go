package main

// Part is one harness binary (with fixed extra arguments) contributing to a property.
type Part struct {
	Harness     string
	Args        []string
	MemLimitMB  int // address-space limit of each worker process (0 = none)
	HangSeconds int // > 0: a worker that overruns its deadline by this many seconds is killed and reported (a single case that never returns)
}

// Prop describes how a property is checked.
type Prop struct {
	Parts          []Part
	Level          string // evidence level
	QuickBudget    float64
	ThoroughBudget float64
	Rule           string
	Assumptions    []string
}

var schedAssumptions = []string{
	"interleavings are explored at the granularity of sync/atomic/channel/timer operations under sequential consistency (weaker memory-model effects are out of scope)",
	"coverage is complete only up to the deviation bound and scenario alphabet stated; larger thread counts / message counts are not covered",
	"go-quartz's own dispatch loop is replaced by a virtual-time implementation that uses the real quartz triggers (its goroutine plumbing is trusted, not explored)",
}

var coarseAssumption = "actor-level exploration: thread switches between messages (HandleEnvelop entry), at blocking points, thread exits and explicit driver yields; preemption inside a message handler is not explored here (handler atomicity per actor is what C01 establishes in fine mode)"

var properties = map[string]Prop{
	"C07": {
		Parts:       []Part{{Harness: "c07"}, {Harness: "c07net"}},
		Level:       "model_checking",
		QuickBudget: 150, ThoroughBudget: 1500,
		Rule:        "all strings over {Start, Stop, Stop(0), cancel} up to length 3 (4 thorough) on three actor trees, explored over message-level schedules incl. the Stop(0)-timer race; plus pairs of such strings on two threads explored at sync/atomic granularity up to the preemption bound; oracle: linearizable w.r.t. the ready->started->stopped machine, every call returns, clean stop leaves no registered actor and no thread; plus (c07net) Stop / context-cancel of a System with remoting next to a peer on the in-memory network: listener bound or in its bind back-off loop x connections none/outbound/inbound/both x peer up/stopped/silently gone, Stop must return nil before its timeout, every actor reported terminated, no thread left; distinct_nontrivial = distinct result vectors per scenario",
		Assumptions: schedAssumptions,
	},
	"C08": {
		Parts:       []Part{{Harness: "sup", Args: []string{"-prop", "C08"}}},
		Level:       "model_checking",
		QuickBudget: 150, ThoroughBudget: 1500,
		Rule:        "delay-bounded DFS over message-level schedules of the real actor.System for the matrix failure-site{OnLaunch,user message,child OnKilled,scheduled message,OnKill} x cause{panic,Failed} x decision(6) x {one-for-one,one-for-all} + escalation chains to the system default + burst positions + repeated failures + failing hooks; oracle = reference supervision model (who is restarted/stopped/resumed/untouched, who is consulted); distinct_nontrivial = distinct per-actor trace summaries per scenario",
		Assumptions: append([]string{coarseAssumption}, schedAssumptions...),
	},
	"C09": {
		Parts:       []Part{{Harness: "sup", Args: []string{"-prop", "C09"}}},
		Level:       "model_checking",
		QuickBudget: 150, ThoroughBudget: 1500,
		Rule:        "same scenario matrix as C08 plus 12 scenarios in which the atomic / lock operations of package mailbox are switch points too (supervision command racing the mailbox going idle); oracle = at quiescence no survivor paused / half-stopped / holding mail, queued burst delivered in order to the right incarnation, every survivor processes a probe sent after quiescence, zombies inert + releasable, System.Stop still terminates everything, no spin, no stuck thread; distinct_nontrivial = distinct per-actor trace summaries per scenario",
		Assumptions: append([]string{coarseAssumption}, schedAssumptions...),
	},
	"C06": {
		Parts:       []Part{{Harness: "c06"}},
		Level:       "model_checking",
		QuickBudget: 200, ThoroughBudget: 1800,
		Rule:        "delay-bounded DFS over schedules (switches between messages and at every mailbox Enqueue) of the real actor.System for tree shape{single,chain3,fan,mixed} x kill target(every node) x {immediate,poison} x second kill{same,ancestor,descendant} x watcher{early,twice,late,unwatched} x spawn racing the kill{in OnKill handler, same-name respawn in the parent's OnKilled handler, outsider ActorOf} x owned subscription+Loop job; oracle = children-first / exactly-once termination notices, path release, name reuse, subscription and job release; distinct_nontrivial = distinct (termination order, per-actor traces) per scenario",
		Assumptions: append([]string{coarseAssumption}, schedAssumptions...),
	},
	"C03": {
		Parts:       []Part{{Harness: "c03"}},
		Level:       "model_checking",
		QuickBudget: 200, ThoroughBudget: 1800,
		Rule:        "delay-bounded DFS over send/receive-level schedules of the real actor.System for target state{running, being killed (immediate/poison/slow subtree), failed+Stop/GracefulStop/Restart/GracefulRestart/Resume, terminated, terminated+name reused, never existed, zombie, system stopped, stashing} x reference provenance{ActorOf warm/cold cache, Clone, ParseRef, FindActor} x sender{outside goroutine, sibling actor}, three numbered messages racing the transition; oracle = conservation (processed xor stashed xor dead-lettered exactly once, by the addressee only, no mailbox holding mail at quiescence); distinct_nontrivial = distinct fate vectors per scenario; added: the three messages travelling through a sibling's Scheduler.Once, stash followed by un-stash, a self-send from the actor's own OnKilled handler, escalation to the system strategy",
		Assumptions: append([]string{coarseAssumption}, schedAssumptions...),
	},
	"C16": {
		Parts:       []Part{{Harness: "c16"}},
		Level:       "exploration",
		QuickBudget: 120, ThoroughBudget: 1200,
		Rule:        "all version vectors over ids {a,b,c} with per-id entry in {absent, explicit 0, 1, 2, Max} (quick; + Max-1 thorough) plus the zero-value struct: every pair (Compare vs pointwise reference, converse, Merge = pointwise max, commutative, idempotent, upper bound, operands unchanged), every single (Increment strictly After / overflow error, Clone isolation, Write/Read round trip consuming all bytes), every triple (transitivity, Equal is a congruence, Merge associative and least upper bound), and all operation sequences of depth 3 (4) over {Increment, Merge, Clone, Compact, Prune} from non-initial states against a dense reference model; a case is non-trivial when the operands differ / the sequence has at least one operation; the wire round trip runs through fresh / pooled / caller-supplied writers under both byte orders, the decoded-from bytes are overwritten afterwards and the re-encoding is compared byte for byte",
		Assumptions: []string{"node ids are drawn from {a,b,c}; counters from the stated alphabet: laws about other ids/values are not covered", "the reference model is the dense function id -> counter with absent == 0"},
	},
	"C17": {
		Parts:       []Part{{Harness: "c17"}},
		Level:       "exploration",
		QuickBudget: 150, ThoroughBudget: 1500,
		Rule:        "grid family: all views over ids {n1,n2} with member incarnation in generation{1,2} x logical clock{1,2,3} (n1 additionally x 2 (quick) / 4 (thorough) status+timestamp variants) or absent, x epoch{0,2} x view timestamp{now, now-10s} x version vector{{}, {n1:1}, {n2:1}}; every ordered pair under each of the 9 merge options (3 concurrent-version strategies x clock skew{off, 1s, 1h}), triples of an evenly spaced subset of about 110 views under each strategy; reachable family: views generated breadth-first by the real join / re-join (generation bump) / status change / version increment / removal / snapshot / merge operations with a ticking virtual clock (depth 3 quick, 5 thorough; capped, cap reported), all pairs x 9 options + triples of a subset. A case is one merge law evaluation on one pair/triple; pairs of different views are the non-trivial ones",
		Assumptions: []string{"logical clocks are >= 1 (LogicalClock == 0 only arises from foreign wire input and is outside the property's quantifier)", "time.Now is the virtual clock of the instrumented build", "the grid over-approximates the reachable incarnations (generation and logical clock vary independently)"},
	},
	"C02": {
		Parts:       []Part{{Harness: "c02ring"}, {Harness: "c02mb"}, {Harness: "c02ctx"}},
		Level:       "model_checking",
		QuickBudget: 200, ThoroughBudget: 1800,
		Rule:        "(a) every sequence over {Push, Pop, PopMany(0,1,2,5)} up to length 8 (10) on ring buffers of initial size 1-4 plus directed growth runs at sizes 5/8/256 with the head at every offset, against a slice; (b) every interleaving up to the preemption bound of 2-3 concurrent senders of numbered user/system series into the real mailbox (ring size 1/2/4): per-sender FIFO, real-time FIFO per queue, system-before-user; (c) every message-level schedule of all Stash/Unstash(n) scripts up to length 5 (6) and of kill-vs-backlog scenarios on the real Context against a list model; distinct_nontrivial = operation sequences + distinct handling orders per scenario",
		Assumptions: schedAssumptions,
	},
	"C04": {
		Parts:       []Part{{Harness: "c04fut"}, {Harness: "c04ask"}},
		Level:       "model_checking",
		QuickBudget: 200, ThoroughBudget: 1800,
		Rule:        "(a) the real future.Future alone: every interleaving, at sync/atomic AND plain field-access granularity, of 2-3 threads drawn from {reply r1, reply r2, Close(actor-dead), Close(nil), PipeTo(f1), PipeTo(f1,f2), PipeTo(f2), Result, Wait} with and without a 1 s timeout (timer deviations), up to the preemption bound, with the happens-before race detector on; (b) Ask through the real actor.System: 1-2 askers x 1-2 asks x replier{once, twice, never, slow} x timeout{1 ns, 1 s, default} x {asker killed, asker killed and re-spawned under the same name before the late reply}, every schedule up to the delay bound with switch points at messages, sends, timer operations and mailbox elections plus timer deviations; distinct_nontrivial = distinct (final result, forwarder log) / result vectors per scenario",
		Assumptions: schedAssumptions,
	},
	"C19": {
		Parts:       []Part{{Harness: "c19es"}, {Harness: "c19sys"}},
		Level:       "model_checking",
		QuickBudget: 200, ThoroughBudget: 1800,
		Rule:        "(a) the real event stream of a started System: 2-3 threads of Subscribe / Unsubscribe / UnsubscribeAll / Publish calls over 2 subscribers and 2 event types (subscribers are references with a recording mailbox), every interleaving at sync granularity up to the delay bound, race detector on; oracle = brute-force linearizability against set semantics, exactly-once, both tables agree and are clean; (b) subscriber actors in a running System: per-publisher order, double subscription, unsubscribe, termination (also zombie, own ActorKilledEvent, events published in reaction to the termination), restart; every schedule up to the delay bound with switch points at messages and sends; distinct_nontrivial = distinct delivery logs per scenario; added: overlapping publications of two types with overlapping multi-subscriber sets, fan-out to 1-130 subscribers, refused duplicate spawn, subscriptions taken in OnPrelaunch (window none / self / concurrent publisher; across a restart; refused or failed namesake)",
		Assumptions: schedAssumptions,
	},
	"C20": {
		// the two-system harness contributes its Once scenarios: a receiver on another system (also one with the owner's own path)
		Parts:       []Part{{Harness: "c20"}, {Harness: "c15", Args: []string{"-only", "once"}}},
		Level:       "model_checking",
		QuickBudget: 200, ThoroughBudget: 1800,
		Rule:        "106 operation scripts (1-4 operations over Once/Loop/Cron(valid,invalid)/Cancel(known,unknown)/Clear/kill owner/fail-and-restart owner/kill receiver; delays 0-3 s so that instants collide; 1-3 jobs; the same reference on two actors; receiver self/other) issued by the owning actor inside handlers at chosen virtual instants incl. exactly at, just before and after firing instants; every schedule up to the delay bound with switch points at messages/sends plus timer deviations at tie instants; oracle = reference timetable (count, not-before-instant, nothing after cancel/clear/owner death/restart, no dead letter for dead jobs, parse error, not-found); distinct_nontrivial = distinct delivery timetables per scenario",
		Assumptions: append([]string{coarseAssumption}, schedAssumptions...),
	},
	"C10": {
		Parts:       []Part{{Harness: "c10"}},
		Level:       "model_checking",
		QuickBudget: 250, ThoroughBudget: 2400,
		Rule:        "all 36 unordered pairs (plus 6 triples) of API thread bodies {System.ActorOf, Kill, Tell, Ask+Result, FindActor/ParseRef, event-stream Subscribe/Publish/Unsubscribe, Future.PipeTo/Close on a shared future, ActorRef Clone/Equals/String/Tell on a shared reference} x lifecycle transition racing them {root child (with a child of its own) killed, failing and stopped, failing and restarted}, explored at sync/atomic granularity with delay bounding and the happens-before race detector on (reads/writes of every struct field and map of the vivid packages are tracked); oracle: no data race, no crash, registry == union of children tables, nobody reported terminated twice, no stuck call, System.Stop afterwards empties the registry; distinct_nontrivial = distinct final registries per scenario",
		Assumptions: schedAssumptions,
	},
	"C12": {
		Parts:       []Part{{Harness: "c12"}},
		Level:       "exploration",
		QuickBudget: 120, ThoroughBudget: 600,
		Rule:        "for every name in the wire registry (the harness fails if a registered name has no generator): the cross product of small field domains (strings {empty, 1 char, 300 bytes, non-ASCII}, integers {0, 1, -1, min, max}, times {epoch, now, max UnixNano}, maps {nil, empty, 2 entries}, nested messages {OnLaunch, user-registered type, user-codec type, nested PipeResult, Ping}, errors {nil, registered, re-worded, foreign, wrapped}, references {nil, local, remote, future}, cluster views / node states with extreme counters) is written and read back (a) through the registered writer/reader with the reader position checked, (b) nested through WriteMessage/ReadMessage, (c) inside an envelope for system flag x 4 senders x 3 receivers; plus every supported primitive / slice / array / struct shape with boundary values in value and pointer form; plus encode-encode-decode, decode-after-failed-decode and encode-after-failed-encode sequences (pooled readers / writers); a case is one (type, value, route) triple, all distinct",
		Assumptions: []string{"equality is judged on a canonical projection (nil == empty containers, time by UnixNano, errors by code+message, references by address+path)", "field domains are the small sets listed; other values are not covered"},
	},
	"C13": {
		Parts:       []Part{{Harness: "c13", MemLimitMB: 6000, HangSeconds: 120}},
		Level:       "exploration",
		QuickBudget: 200, ThoroughBudget: 1800,
		Rule:        "decode side: every byte string of length <= 2, and every string of length 3-5 (6 thorough) over the boundary alphabet {00,01,04,7f,80,fc,ff}, through every entry point (envelope decoder with and without a user codec, ReadMessage, ReadVersionVector, each of the 30 registered readers); for every distinct valid encoding of the C12 corpus (three routes: registered writer, WriteMessage, envelope) every truncation and at every offset the substitutions {00,01,7f,80,ff,b^01,b^80,b+1,b-1} (thorough: all 255) and every 4-byte window overwritten with {ffffffff, fffffffc, 80000000, 7fffffff, 00010000, 0000ffff}; Reader.Read of every truncation of 12 encoded shapes into pre-filled targets; each case guarded for panic and for allocation > 1 MiB + 4 KiB x input length (runtime/metrics), the worker runs under an address-space limit and a fatal crash is attributed to the case in flight; encode side: 19 unsupported / exotic Go values through Write and WriteFrom, 9 nil / non-pointer / unknown messages through the envelope encoder and WriteMessage with and without a codec; every case is distinct",
		Assumptions: []string{"non-termination is only detected through the overall deadline", "corruptions are single-byte; multi-byte corruptions are covered only for inputs of length <= 2"},
	},
	"C11": {
		Parts:       []Part{{Harness: "c11"}},
		Level:       "model_checking",
		QuickBudget: 250, ThoroughBudget: 2400,
		Rule:        "two real Systems with remoting enabled on an in-memory network: bursts of 1-4 numbered messages with payload {0, 1, 200, 4000, 4090, 4096 (bufio boundary), 65536} bytes, two concurrent senders, two senders contacting the remote address for the first time at once with the lock operations of package remoting as switch points (delay bound 2), both directions at once, Ask/Reply, and a 12 s idle gap (beyond the handshake deadlines) between bursts; reads return everything available (maximal coalescing, default) or one of {1, 3, 4, 5, half, all-but-one} bytes as environment choices at every Read (handshake included); every schedule up to the delay/deviation bound with switch points at messages, sends, network operations and mailbox elections; oracle: exactly once, intact, per-sender order, Sender() == original sender, every Ask gets its own reply, no decode-failed event; distinct_nontrivial = distinct delivery logs per scenario",
		Assumptions: append([]string{"the network is the in-memory vnet shim (net.Dial / ListenTCP / Conn with virtual deadlines); TLS listeners are not modelled", coarseAssumption}, schedAssumptions...),
	},
	"C14": {
		// the empty fault pattern (from the healthy-link harness): two senders streaming to two peers, and a message rejected by the
		// sender's own encoder while earlier frames are still in flight
		Parts:       []Part{{Harness: "c14"}, {Harness: "c11", Args: []string{"-only", "two-peers,rejected-in-flight"}}},
		Level:       "fault_enumeration",
		QuickBudget: 250, ThoroughBudget: 2400,
		Rule:        "two real Systems on the in-memory network, sender A -> receiver B, retry limit in {0,1,3}: the first connection is cut after byte j of its client->server stream for every j in 0..280 (handshake + three frames; quick: every j for limit 1, every third j otherwise), two-fault runs cutting the first and the second connection on a grid of offsets, the first k in 1..5 dials refused (exact retry budget per message), two senders contacting the peer for the first time at once with 0/1 refused dials and fine granularity inside package remoting, the peer stopped and restarted (with and without a send while it is down), and a raw client injecting between two valid frames an undecodable body / an over-limit length followed by a forged frame / an unknown message name / a corrupted envelope; each scenario explored over schedules up to the deviation bound; a case is one (fault, position, retry limit) scenario, non-trivial when a fault actually fired",
		Assumptions: append([]string{"the network is the in-memory vnet shim: a cut makes the write that crosses the offset fail after delivering the prefix", coarseAssumption}, schedAssumptions...),
	},
	"C15": {
		Parts:       []Part{{Harness: "c15"}},
		Level:       "model_checking",
		QuickBudget: 250, ThoroughBudget: 2400,
		Rule:        "12 operations taking an ActorRef {Tell, Ask+Reply, Kill, poison Kill, Watch then target dies, Watch+Unwatch then target dies, Ping, PipeTo success, PipeTo failure (timeout), PipeTo with a forwarder on the other system, Scheduler.Once, Scheduler.Loop} x target {local, on another System over the in-memory network} x {user Codec with a message type outside the registry, no codec with a registered type}; plus two watchers with the same path on the two systems (watch / one unwatches) and eight operations repeated right after a message legitimately rejected by its writer; each of the 70 scenarios over all schedules up to the delay bound with switch points at messages, sends and network operations; oracle: the same expected observable effect for the local and the remote variant (delivery, reply, termination + OnKill.Killer, OnKilled naming the target with its address, Pong, PipeResult at the forwarder, scheduled deliveries) and no decode/send failure event; distinct_nontrivial = distinct effect vectors per scenario; added: every operation again after a rejected message, after an undecodable one, against a re-used name, and after the peer was unreachable beyond the retry window (issued 300 ms before it is back)",
		Assumptions: append([]string{"event-stream subscriptions are local by design and not part of the matrix", coarseAssumption}, schedAssumptions...),
	},
	"C18": {
		Parts:       []Part{{Harness: "c18"}},
		Level:       "model_checking",
		QuickBudget: 250, ThoroughBudget: 2400,
		Rule:        "n = 2-3 (4 thorough) real Systems with clustering enabled over the in-memory network on virtual time, real gossip / join / failure-detection code and wire codec: seed layouts {one seed, two seeds}, start offsets {0, 0.3 s, 0.7 s} in several orders, FailureDetectionTimeout {4 s, default 40 s, off}, SuspectConfirmDuration {0, 2 s}; a late self-seeded island; fault phase: crash (isolation) of a non-seed node, restart with the same NodeID on the same / on a new address, restart with a fresh NodeID, partition and heal of a pair, each at three instants; healing phase of max(20 gossip rounds, 5 x timeout) of virtual time; oracle at the horizon: no view lists a node that is not running (dead-member-removed), and among the running nodes: equal member sets and incarnations, same computed leader, exactly one self-declared leader, every running node listed, no membership/leader event in the last third of the healing phase; executions are deterministic runs of the whole protocol stack (default fair schedule per scenario; deviations in thorough); distinct_nontrivial = distinct final view vectors; added: graceful Leave of a seed / non-seed / still-joining node whose system keeps running (Leave must return), seeds that come up late, views sampled every 250 ms after a death (a dropped dead member must not be listed again in the last third of the healing phase)",
		Assumptions: append([]string{"reconnect limit 1 with 100-200 ms back-off (instead of 10 attempts up to 10 s) so that Tell to a dead node does not stall the cluster actor for minutes of virtual time", "cluster sizes 5-7 and message loss inside a TCP stream are not covered", coarseAssumption}, schedAssumptions...),
	},
	"C05": {
		Parts:       []Part{{Harness: "c05"}},
		Level:       "model_checking",
		QuickBudget: 150, ThoroughBudget: 1500,
		Rule:        "delay-bounded DFS over message-level schedules of the real actor.System for each scenario of the matrix failure-site x cause x decision x provider (+Become, kills, prelaunch failures, repeated restarts, failing hooks, slow decision maker overtaken by a kill, watcher dead before the watched actor); oracle = per-incarnation trace grammar over everything behaviours saw; distinct_nontrivial = distinct per-actor trace summaries per scenario",
		Assumptions: append([]string{coarseAssumption}, schedAssumptions...),
	},
	"C01": {
		Parts:       []Part{{Harness: "c01"}},
		Level:       "model_checking",
		QuickBudget: 120, ThoroughBudget: 1200,
		Rule:        "stateless DFS over all schedules of each scenario (2-4 threads sending user/system mail, calling Pause/Resume; handler reactions) up to the preemption bound; an execution is one trace of the real mailbox; distinct_nontrivial counts distinct (scenario, final handled-sequence) outcomes; the pair PuR|PuR is explored one bound deeper (3) in the quick tier",
		Assumptions: schedAssumptions,
	},
}
