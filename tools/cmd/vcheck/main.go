// vcheck is the runner behind every command registered in MANIFEST.json.
//
//	vcheck run <ID> [-tier quick|thorough]     instrument /repo's working tree, build the harnesses of
//	                                            property <ID>, explore, write evidence, print VIOLATION /
//	                                            KNOWN-FINDING lines, exit 0 / 1 / 2
//	vcheck replay <file>                        rebuild from the current tree and re-run one recorded execution
//	vcheck build <harness>                      instrument + build one harness, print the binary path (debugging)
package main

import (
	"bytes"
	"crypto/sha1"
	"encoding/hex"
	"encoding/json"
	"flag"
	"fmt"
	"io"
	"os"
	"os/exec"
	"path/filepath"
	"sort"
	"strconv"
	"strings"
	"sync"
	"time"
)

const (
	verifDir = "/verif"
	goBin    = "/opt/veriftools/go1.26.8/bin"
)

// repoDir is the tree that is instrumented and checked: /repo's working tree. Trials with deliberately
// broken trees (tools/mutant.sh) point VERIF_REPO at a scratch worktree instead of patching /repo.
var repoDir = func() string {
	if d := os.Getenv("VERIF_REPO"); d != "" {
		return d
	}
	return "/repo"
}()

func goEnv() []string {
	env := os.Environ()
	env = append(env,
		"PATH="+goBin+":"+os.Getenv("PATH"),
		"GOFLAGS=-mod=mod", "GOPROXY=off", "GOSUMDB=off", "GOTOOLCHAIN=local", "GOWORK=off",
	)
	return env
}

func fatal(format string, a ...any) {
	fmt.Printf("HARNESS-ERROR: "+format+"\n", a...)
	os.Exit(2)
}

// ---- instrumentation + build ---------------------------------------------------------------

func hashTree() string {
	h := sha1.New()
	var files []string
	add := func(root string, skip func(string) bool) {
		filepath.Walk(root, func(p string, info os.FileInfo, err error) error {
			if err != nil {
				return nil
			}
			if info.IsDir() {
				b := filepath.Base(p)
				if b == ".git" || b == "node_modules" || (skip != nil && skip(p)) {
					return filepath.SkipDir
				}
				return nil
			}
			if strings.HasSuffix(p, ".go") || strings.HasSuffix(p, "go.mod") || strings.HasSuffix(p, "go.sum") {
				files = append(files, p)
			}
			return nil
		})
	}
	add(repoDir, func(p string) bool {
		return strings.HasPrefix(p, repoDir+"/docs") || strings.HasPrefix(p, repoDir+"/assets")
	})
	add(verifDir+"/shim", nil)
	add(verifDir+"/tools", nil)
	add(verifDir+"/inject", nil)
	add(verifDir+"/quartzfake", nil)
	sort.Strings(files)
	for _, f := range files {
		b, err := os.ReadFile(f)
		if err != nil {
			continue
		}
		io.WriteString(h, f)
		h.Write([]byte{0})
		h.Write(b)
	}
	return hex.EncodeToString(h.Sum(nil))[:20]
}

var scratch string

func mkScratch() string {
	if scratch != "" {
		return scratch
	}
	base := os.Getenv("VERIF_SCRATCH")
	if base == "" {
		base = os.TempDir()
	}
	d, err := os.MkdirTemp(base, "vcheck-")
	if err != nil {
		fatal("mktemp: %v", err)
	}
	scratch = d
	return d
}

func cleanup() {
	if scratch != "" && os.Getenv("VERIF_KEEP") == "" {
		os.RemoveAll(scratch)
	}
}

// instrumentTree returns a directory holding overlay.json for the current tree (cached by content hash).
func instrumentTree() string { return instrumentTreeMode(true) }

func instrumentTreeMode(race bool) string {
	key := hashTree()
	if !race {
		key += "-norw"
	}
	cacheRoot := filepath.Join(verifDir, ".cache")
	dir := filepath.Join(cacheRoot, "inst-"+key)
	if _, err := os.Stat(filepath.Join(dir, "overlay.json")); err == nil {
		now := time.Now()
		os.Chtimes(dir, now, now)
		return dir
	}
	os.MkdirAll(cacheRoot, 0o755)
	tmp, err := os.MkdirTemp(cacheRoot, "tmp-")
	if err != nil {
		fatal("%v", err)
	}
	cmd := exec.Command(filepath.Join(verifDir, "bin", "instrument"), "-repo", repoDir, "-out", tmp, fmt.Sprintf("-race=%v", race))
	cmd.Env = goEnv()
	out, err := cmd.CombinedOutput()
	if err != nil {
		os.RemoveAll(tmp)
		fmt.Print(string(out))
		fatal("instrumentation of the current tree failed (the tree may not compile): %v", err)
	}
	// quartz fake module copy
	if err := prepareQuartz(tmp); err != nil {
		os.RemoveAll(tmp)
		fatal("quartz copy: %v", err)
	}
	// fix up paths inside overlay.json (they point into tmp)
	b, _ := os.ReadFile(filepath.Join(tmp, "overlay.json"))
	b = bytes.ReplaceAll(b, []byte(tmp), []byte(dir))
	os.WriteFile(filepath.Join(tmp, "overlay.json"), b, 0o644)
	if err := os.Rename(tmp, dir); err != nil {
		os.RemoveAll(tmp) // somebody else won the race
	}
	pruneCache(cacheRoot, dir)
	return dir
}

func pruneCache(root, keep string) {
	ents, _ := os.ReadDir(root)
	type e struct {
		p string
		t time.Time
	}
	var all []e
	for _, en := range ents {
		if !strings.HasPrefix(en.Name(), "inst-") {
			continue
		}
		info, err := en.Info()
		if err != nil {
			continue
		}
		all = append(all, e{filepath.Join(root, en.Name()), info.ModTime()})
	}
	sort.Slice(all, func(i, j int) bool { return all[i].t.After(all[j].t) })
	for i, x := range all {
		if i >= 4 && x.p != keep {
			os.RemoveAll(x.p)
		}
	}
}

// prepareQuartz copies go-quartz from the module cache into dir/quartz and replaces its
// scheduler implementation with the vrt-aware fake (see /verif/quartzfake).
func prepareQuartz(dir string) error {
	fake := filepath.Join(verifDir, "quartzfake")
	if _, err := os.Stat(fake); err != nil {
		return nil
	}
	cmd := exec.Command(goBin+"/go", "list", "-m", "-f", "{{.Dir}}", "github.com/reugn/go-quartz")
	cmd.Dir = repoDir
	cmd.Env = goEnv()
	out, err := cmd.Output()
	if err != nil {
		return fmt.Errorf("go list quartz: %v", err)
	}
	src := strings.TrimSpace(string(out))
	dst := filepath.Join(dir, "quartz")
	cp := exec.Command("cp", "-r", src, dst)
	if o, err := cp.CombinedOutput(); err != nil {
		return fmt.Errorf("cp: %v %s", err, o)
	}
	exec.Command("chmod", "-R", "u+w", dst).Run()
	// remove tests and the real scheduler; drop in the fake
	filepath.Walk(dst, func(p string, info os.FileInfo, err error) error {
		if err == nil && !info.IsDir() && strings.HasSuffix(p, "_test.go") {
			os.Remove(p)
		}
		return nil
	})
	os.Remove(filepath.Join(dst, "quartz", "scheduler.go"))
	ents, _ := os.ReadDir(fake)
	for _, en := range ents {
		if strings.HasSuffix(en.Name(), ".go") {
			b, _ := os.ReadFile(filepath.Join(fake, en.Name()))
			os.WriteFile(filepath.Join(dst, "quartz", en.Name()), b, 0o644)
		}
	}
	return nil
}

// buildHarness builds /verif/harness/<name> against the instrumented tree; returns the binary path.
func buildHarness(inst, name string, race bool) string {
	bin, out, err := tryBuildHarness(inst, name, race)
	if err != nil && !strings.HasSuffix(inst, "-norw") {
		// the access instrumentation for the race detector is the most intricate rewrite: if the tree
		// does not build with it, fall back to the plain instrumentation (race rules are then inert)
		fmt.Println("NOTE: build with read/write instrumentation failed; retrying without it")
		inst2 := instrumentTreeMode(false)
		bin, out, err = tryBuildHarness(inst2, name, race)
	}
	if err != nil {
		fmt.Print(out)
		fatal("building harness %s against the current tree failed: %v", name, err)
	}
	return bin
}

func tryBuildHarness(inst, name string, race bool) (string, string, error) {
	sc := mkScratch()
	b, err := os.ReadFile(filepath.Join(inst, "overlay.json"))
	if err != nil {
		fatal("%v", err)
	}
	var ov struct{ Replace map[string]string }
	if err := json.Unmarshal(b, &ov); err != nil {
		fatal("%v", err)
	}
	addDir := func(srcDir, dstDir string) {
		ents, _ := os.ReadDir(srcDir)
		for _, en := range ents {
			if strings.HasSuffix(en.Name(), ".go") {
				ov.Replace[filepath.Join(dstDir, en.Name())] = filepath.Join(srcDir, en.Name())
			}
		}
	}
	shims, _ := os.ReadDir(filepath.Join(verifDir, "shim"))
	for _, s := range shims {
		if s.IsDir() {
			addDir(filepath.Join(verifDir, "shim", s.Name()), filepath.Join(repoDir, "internal", "verif", s.Name()))
		}
	}
	// injected files: /verif/inject/<rel pkg dir with / replaced by __>/x.go -> /repo/<rel pkg dir>/zz_verif_x.go
	injs, _ := os.ReadDir(filepath.Join(verifDir, "inject"))
	for _, d := range injs {
		if !d.IsDir() {
			continue
		}
		rel := strings.ReplaceAll(d.Name(), "__", "/")
		if rel == "root" {
			rel = "."
		}
		ents, _ := os.ReadDir(filepath.Join(verifDir, "inject", d.Name()))
		for _, en := range ents {
			if strings.HasSuffix(en.Name(), ".go") {
				ov.Replace[filepath.Join(repoDir, rel, "zz_verif_"+en.Name())] = filepath.Join(verifDir, "inject", d.Name(), en.Name())
			}
		}
	}
	addDir(filepath.Join(verifDir, "harness", name), filepath.Join(repoDir, "internal", "verif", "h_"+name))
	// go.mod with the quartz replace
	if _, err := os.Stat(filepath.Join(inst, "quartz")); err == nil {
		gm, err := os.ReadFile(filepath.Join(repoDir, "go.mod"))
		if err != nil {
			fatal("%v", err)
		}
		gm = append(gm, []byte("\nreplace github.com/reugn/go-quartz => "+filepath.Join(inst, "quartz")+"\n")...)
		gmPath := filepath.Join(sc, "go.mod."+name)
		os.WriteFile(gmPath, gm, 0o644)
		ov.Replace[filepath.Join(repoDir, "go.mod")] = gmPath
	}
	ovPath := filepath.Join(sc, "overlay-"+name+".json")
	ob, _ := json.Marshal(ov)
	os.WriteFile(ovPath, ob, 0o644)
	bin := filepath.Join(sc, "h_"+name)
	args := []string{"build", "-overlay", ovPath, "-tags", "verif", "-o", bin}
	if race {
		args = append(args, "-race")
	}
	args = append(args, "./internal/verif/h_"+name)
	cmd := exec.Command(goBin+"/go", args...)
	cmd.Dir = repoDir
	cmd.Env = goEnv()
	out, err := cmd.CombinedOutput()
	return bin, string(out), err
}

// ---- worker protocol -------------------------------------------------------------------------

type Violation struct {
	Scenario string   `json:"scenario"`
	Rule     string   `json:"rule"`
	Detail   string   `json:"detail"`
	Choices  []int    `json:"choices,omitempty"`
	Input    any      `json:"input,omitempty"`
	Bound    int      `json:"bound"`
	Cost     int      `json:"cost"`
	Log      []string `json:"log,omitempty"`
	Count    int      `json:"count"`
	harness  string
}

type ScenarioStats struct {
	Name           string         `json:"name"`
	Family         string         `json:"family,omitempty"`
	Executions     int64          `json:"executions"`
	Points         int64          `json:"points"`
	Steps          int64          `json:"steps"`
	Outcomes       int            `json:"outcomes"`
	BoundCompleted int            `json:"bound_completed"`
	Exhaustive     bool           `json:"exhaustive"`
	Unbounded      bool           `json:"unbounded"`
	MaxThreads     int            `json:"max_threads"`
	MaxDecisions   int            `json:"max_decisions"`
	Tags           map[string]int `json:"tags,omitempty"`
	SampleTrace    []string       `json:"sample_trace,omitempty"`
	// enumeration harnesses
	Evaluations int64 `json:"evaluations,omitempty"`
	Distinct    int64 `json:"distinct,omitempty"`
	Samples     []any `json:"samples,omitempty"`
}

type Report struct {
	Property      string          `json:"property"`
	Harness       string          `json:"harness"`
	Scenarios     []ScenarioStats `json:"scenarios"`
	Violations    []Violation     `json:"violations"`
	HarnessErrors []string        `json:"harness_errors"`
	WallS         float64         `json:"wall_s"`
	DeadlineHit   bool            `json:"deadline_hit"`
	Notes         []string        `json:"notes,omitempty"`
}

type partResult struct {
	part    Part
	reports []Report
	crashes []string
}

func listScenarios(bin, tier string, extra []string) []string {
	args := append([]string{"-tier", tier, "-list"}, extra...)
	out, err := exec.Command(bin, args...).Output()
	if err != nil {
		fatal("listing scenarios of %s failed: %v", bin, err)
	}
	var names []string
	for _, l := range strings.Split(strings.TrimSpace(string(out)), "\n") {
		if l == "" {
			continue
		}
		sp := strings.SplitN(l, " ", 2)
		if len(sp) == 2 {
			names = append(names, sp[1])
		}
	}
	return names
}

func runPart(p Part, bin, tier string, deadline time.Time, workers int) partResult {
	res := partResult{part: p}
	names := listScenarios(bin, tier, p.Args)
	n := len(names)
	if n == 0 {
		fatal("harness %s lists no scenarios", p.Harness)
	}
	// chunk scenario indices: about 4 chunks per worker, interleaved for balance
	chunks := workers * 4
	if chunks > n {
		chunks = n
	}
	jobs := make(chan []int, chunks)
	for c := 0; c < chunks; c++ {
		var idx []int
		for i := c; i < n; i += chunks {
			idx = append(idx, i)
		}
		jobs <- idx
	}
	close(jobs)
	var mu sync.Mutex
	var wg sync.WaitGroup
	sc := mkScratch()
	for w := 0; w < workers; w++ {
		wg.Add(1)
		go func(w int) {
			defer wg.Done()
			jn := 0
			for idx := range jobs {
				jn++
				left := time.Until(deadline).Seconds()
				if left < 1 {
					left = 1
				}
				outFile := filepath.Join(sc, fmt.Sprintf("rep-%s-%d-%d.json", p.Harness, w, jn))
				var is []string
				for _, i := range idx {
					is = append(is, strconv.Itoa(i))
				}
				args := append([]string{"-tier", tier, "-indices", strings.Join(is, ","), "-out", outFile, "-deadline", fmt.Sprintf("%.0f", left)}, p.Args...)
				cmd := exec.Command(bin, args...)
				progress := outFile + ".progress"
				if p.MemLimitMB > 0 {
					// bound the address space so that a runaway allocation fails fast instead of eating the machine
					sh := fmt.Sprintf("ulimit -v %d; exec \"$0\" \"$@\"", p.MemLimitMB*1024)
					cmd = exec.Command("/bin/sh", append([]string{"-c", sh, bin}, args...)...)
				}
				cmd.Env = append(os.Environ(), "GOMAXPROCS=2", "GOTRACEBACK=single", "VENUM_PROGRESS="+progress)
				var stderr bytes.Buffer
				cmd.Stderr = &stderr
				cmd.Stdout = &stderr
				hung := false
				var err error
				if p.HangSeconds > 0 {
					// a worker checks its deadline between cases; one that overruns it by HangSeconds is stuck inside a single case
					if err = cmd.Start(); err == nil {
						done := make(chan error, 1)
						go func() { done <- cmd.Wait() }()
						select {
						case err = <-done:
						case <-time.After(time.Duration(left*float64(time.Second)) + time.Duration(p.HangSeconds)*time.Second):
							hung = true
							cmd.Process.Kill()
							err = <-done
						}
					}
				} else {
					err = cmd.Run()
				}
				mu.Lock()
				if hung {
					last, _ := os.ReadFile(progress)
					res.crashes = append(res.crashes, fmt.Sprintf("worker for scenarios %v of %s did not come back %d s after its deadline: stuck inside a single case; case in flight: %s", idx, p.Harness, p.HangSeconds, string(last)))
				} else if err != nil {
					tail := stderr.String()
					if len(tail) > 6000 {
						tail = tail[:3000] + "\n...\n" + tail[len(tail)-3000:]
					}
					last, _ := os.ReadFile(progress)
					res.crashes = append(res.crashes, fmt.Sprintf("worker for scenarios %v of %s exited: %v; case in flight: %s\n%s", idx, p.Harness, err, string(last), tail))
				} else {
					b, e2 := os.ReadFile(outFile)
					var r Report
					if e2 != nil || json.Unmarshal(b, &r) != nil {
						res.crashes = append(res.crashes, fmt.Sprintf("worker for %v of %s wrote no valid report", idx, p.Harness))
					} else {
						res.reports = append(res.reports, r)
					}
				}
				mu.Unlock()
			}
		}(w)
	}
	wg.Wait()
	return res
}

// ---- known findings --------------------------------------------------------------------------

type Finding struct {
	Property       string `json:"property"`
	Status         string `json:"status"` // known | fixed
	Rule           string `json:"rule"`
	Scenario       string `json:"scenario,omitempty"`        // glob with *
	DetailContains string `json:"detail_contains,omitempty"` // substring
	Commit         string `json:"commit,omitempty"`
	What           string `json:"what"`
}

func loadFindings() []Finding {
	b, err := os.ReadFile(filepath.Join(verifDir, "known_findings.json"))
	if err != nil {
		return nil
	}
	var f struct {
		Findings []Finding `json:"findings"`
	}
	if err := json.Unmarshal(b, &f); err != nil {
		fatal("known_findings.json: %v", err)
	}
	return f.Findings
}

func globMatch(pat, s string) bool {
	if pat == "" {
		return true
	}
	parts := strings.Split(pat, "*")
	if len(parts) == 1 {
		return pat == s
	}
	if !strings.HasPrefix(s, parts[0]) {
		return false
	}
	s = s[len(parts[0]):]
	for i := 1; i < len(parts)-1; i++ {
		j := strings.Index(s, parts[i])
		if j < 0 {
			return false
		}
		s = s[j+len(parts[i]):]
	}
	return strings.HasSuffix(s, parts[len(parts)-1])
}

func (f *Finding) matches(prop string, v *Violation) bool {
	return f.Status == "known" && f.Property == prop && f.Rule == v.Rule && globMatch(f.Scenario, v.Scenario) &&
		(f.DetailContains == "" || strings.Contains(v.Detail, f.DetailContains))
}

// ---- evidence --------------------------------------------------------------------------------

type Evidence struct {
	PropertyID  string         `json:"property_id"`
	Tier        string         `json:"tier"`
	Seed        int            `json:"seed"`
	Level       string         `json:"level"`
	Coverage    map[string]any `json:"coverage"`
	Assumptions []string       `json:"assumptions"`
	WallS       float64        `json:"wall_s"`
	Violations  int            `json:"violations"`
}

func main() {
	if len(os.Args) < 2 {
		fatal("usage: vcheck run <ID> [-tier t] | replay <file> | build <harness>")
	}
	defer cleanup()
	os.Setenv("PATH", goBin+":"+os.Getenv("PATH"))
	switch os.Args[1] {
	case "run":
		code := cmdRun(os.Args[2:])
		cleanup()
		os.Exit(code)
	case "replay":
		code := cmdReplay(os.Args[2:])
		cleanup()
		os.Exit(code)
	case "build":
		os.Setenv("VERIF_KEEP", "1")
		inst := instrumentTree()
		fmt.Println(buildHarness(inst, os.Args[2], false))
	default:
		fatal("unknown command %s", os.Args[1])
	}
}

func cmdReplay(args []string) int {
	if len(args) < 1 {
		fatal("usage: vcheck replay <file>")
	}
	b, err := os.ReadFile(args[0])
	if err != nil {
		fatal("%v", err)
	}
	var rf struct {
		Harness string   `json:"harness"`
		Tier    string   `json:"tier"`
		Args    []string `json:"args"`
	}
	if err := json.Unmarshal(b, &rf); err != nil {
		fatal("%v", err)
	}
	inst := instrumentTree()
	bin := buildHarness(inst, rf.Harness, false)
	a := append([]string{"-tier", rf.Tier, "-replay", args[0]}, rf.Args...)
	cmd := exec.Command(bin, a...)
	cmd.Stdout = os.Stdout
	cmd.Stderr = os.Stderr
	if err := cmd.Run(); err != nil {
		if ee, ok := err.(*exec.ExitError); ok {
			return ee.ExitCode()
		}
		return 2
	}
	return 0
}

func cmdRun(args []string) int {
	if len(args) < 1 {
		fatal("usage: vcheck run <ID> [-tier quick|thorough]")
	}
	id := args[0]
	fs := flag.NewFlagSet("run", flag.ExitOnError)
	tier := fs.String("tier", os.Getenv("VERIF_TIER"), "quick|thorough")
	budget := fs.Float64("budget", 0, "override exploration time budget in seconds")
	fs.Parse(args[1:])
	if *tier == "" {
		*tier = "quick"
	}
	prop, ok := properties[id]
	if !ok {
		fatal("unknown property %s", id)
	}
	seed, _ := strconv.Atoi(os.Getenv("VERIF_SEED"))
	start := time.Now()
	inst := instrumentTree()
	b := prop.QuickBudget
	if *tier == "thorough" {
		b = prop.ThoroughBudget
	}
	if *budget > 0 {
		b = *budget
	}
	workers := 16
	if w, err := strconv.Atoi(os.Getenv("VERIF_WORKERS")); err == nil && w > 0 {
		workers = w
	}
	// build all harness binaries first (sequentially: the go build cache is shared)
	bins := map[string]string{}
	for _, p := range prop.Parts {
		if _, ok := bins[p.Harness]; !ok {
			bins[p.Harness] = buildHarness(inst, p.Harness, false)
		}
	}
	buildS := time.Since(start).Seconds()
	deadline := time.Now().Add(time.Duration(b * float64(time.Second)))
	var results []partResult
	for _, p := range prop.Parts {
		results = append(results, runPart(p, bins[p.Harness], *tier, deadline, workers))
	}
	// aggregate
	findings := loadFindings()
	var (
		harnessErrs []string
		viols       []Violation
		allStats    []ScenarioStats
		deadlineHit bool
		notes       []string
	)
	for _, r := range results {
		for _, c := range r.crashes {
			if strings.Contains(c, "HARNESS-ERROR") || strings.Contains(c, "wrote no valid report") {
				harnessErrs = append(harnessErrs, c)
			} else {
				viols = append(viols, Violation{Scenario: "worker-crash/" + r.part.Harness, Rule: "no-crash", Detail: c, harness: r.part.Harness, Count: 1})
			}
		}
		for _, rep := range r.reports {
			harnessErrs = append(harnessErrs, rep.HarnessErrors...)
			for _, v := range rep.Violations {
				v.harness = r.part.Harness
				viols = append(viols, v)
			}
			allStats = append(allStats, rep.Scenarios...)
			if rep.DeadlineHit {
				deadlineHit = true
			}
			notes = append(notes, rep.Notes...)
		}
	}
	sort.Slice(allStats, func(i, j int) bool { return allStats[i].Name < allStats[j].Name })
	sort.Slice(viols, func(i, j int) bool {
		if viols[i].Rule != viols[j].Rule {
			return viols[i].Rule < viols[j].Rule
		}
		return viols[i].Scenario < viols[j].Scenario
	})
	if len(harnessErrs) > 0 && len(viols) == 0 {
		for _, h := range harnessErrs {
			fmt.Println("HARNESS-ERROR:", h)
		}
		return 2
	}
	for _, h := range harnessErrs {
		fmt.Println("NOTE (harness error next to violations):", oneLine(h, 300))
	}
	// classify violations
	os.MkdirAll(filepath.Join(verifDir, "replays"), 0o755)
	knownPrinted := map[string]bool{}
	unlisted := 0
	perRule := map[string]int{}
	for i := range viols {
		v := &viols[i]
		matched := false
		for fi := range findings {
			f := &findings[fi]
			if f.matches(id, v) {
				matched = true
				key := f.What // one line per finding, however many rule/scenario entries describe it
				if !knownPrinted[key] {
					knownPrinted[key] = true
					fmt.Printf("KNOWN-FINDING: property=%s %s\n", id, f.What)
				}
				break
			}
		}
		if matched {
			continue
		}
		unlisted++
		perRule[v.Rule]++
		if perRule[v.Rule] > 5 {
			if os.Getenv("VCHECK_ALL") != "" { // diagnosis: name every violating scenario (still no further replay files)
				fmt.Printf("  (capped) rule=%s scenario=%s deviations=%d\n  %s\n", v.Rule, v.Scenario, v.Cost, oneLine(v.Detail, 400))
			}
			continue // cap the number of replay files per rule; counted below
		}
		var part Part
		for _, p := range prop.Parts {
			if p.Harness == v.harness {
				part = p
			}
		}
		rf := map[string]any{
			"property": id, "harness": v.harness, "tier": *tier, "args": part.Args, "scenario": v.Scenario, "rule": v.Rule,
			"detail": v.Detail, "choices": v.Choices, "input": v.Input, "log": v.Log, "bound": v.Bound, "cost": v.Cost,
			"how_to_replay": "/verif/bin/vcheck replay <this file>",
		}
		rb, _ := json.MarshalIndent(rf, "", " ")
		sum := sha1.Sum([]byte(v.harness + "|" + v.Scenario + "|" + v.Rule))
		path := filepath.Join(verifDir, "replays", fmt.Sprintf("%s-%s.json", id, hex.EncodeToString(sum[:])[:10]))
		os.WriteFile(path, rb, 0o644)
		fmt.Printf("VIOLATION property=%s replay=%s\n", id, path)
		fmt.Printf("  rule=%s scenario=%s deviations=%d\n  %s\n", v.Rule, v.Scenario, v.Cost, oneLine(v.Detail, 400))
	}
	for r, n := range perRule {
		if n > 5 {
			fmt.Printf("  (%d further scenarios violate rule %s; replay files capped at 5 per rule)\n", n-5, r)
		}
	}
	// evidence
	ev := Evidence{PropertyID: id, Tier: *tier, Seed: seed, Level: prop.Level, Assumptions: prop.Assumptions, Violations: unlisted}
	cov := map[string]any{}
	var execs, points, steps, outcomes, evals, distinct int64
	exhaustive := !deadlineHit
	minBound := 1 << 30
	unboundedScenarios := 0
	multi := 0
	var samples []any
	fam := map[string]int{}
	for _, s := range allStats {
		execs += s.Executions
		points += s.Points
		steps += s.Steps
		outcomes += int64(s.Outcomes)
		evals += s.Evaluations
		distinct += s.Distinct
		if s.Executions > 0 {
			if !s.Exhaustive {
				exhaustive = false
			}
			if s.BoundCompleted < minBound {
				minBound = s.BoundCompleted
			}
			if s.Unbounded {
				unboundedScenarios++
			}
			if s.Outcomes > 1 {
				multi++
			}
		}
		fam[s.Family]++
		if len(samples) < 4 && (len(s.SampleTrace) > 0 || len(s.Samples) > 0) {
			if len(s.SampleTrace) > 0 {
				samples = append(samples, map[string]any{"scenario": s.Name, "default_schedule_trace": s.SampleTrace})
			} else {
				samples = append(samples, map[string]any{"scenario": s.Name, "cases": s.Samples})
			}
		}
	}
	if minBound == 1<<30 {
		minBound = -1
	}
	cov["scenarios"] = len(allStats)
	cov["scenario_families"] = fam
	cov["exhaustive"] = exhaustive
	cov["samples"] = samples
	cov["deadline_hit"] = deadlineHit
	cov["build_s"] = buildS
	if len(notes) > 0 {
		cov["notes"] = notes
	}
	if execs > 0 {
		cov["states"] = points
		cov["transitions"] = steps
		cov["traces_validated_against_impl"] = execs
		cov["executions"] = execs
		cov["deviation_bound_completed_in_every_scenario"] = minBound
		cov["scenarios_explored_without_any_pruning"] = unboundedScenarios
		cov["scenarios_with_more_than_one_outcome"] = multi
	}
	cov["evaluations"] = execs + evals
	cov["distinct_nontrivial"] = outcomes + distinct
	cov["rule"] = prop.Rule
	ev.Coverage = cov
	ev.WallS = time.Since(start).Seconds()
	evDir := filepath.Join(verifDir, "evidence")
	if d := os.Getenv("VCHECK_EVIDENCE_DIR"); d != "" { // trials with deliberately broken trees must not overwrite the evidence of the real tree
		evDir = d
	}
	os.MkdirAll(evDir, 0o755)
	eb, _ := json.MarshalIndent(ev, "", " ")
	if err := os.WriteFile(filepath.Join(evDir, id+".json"), eb, 0o644); err != nil {
		fatal("%v", err)
	}
	fmt.Printf("%s %s: scenarios=%d executions=%d decision-nodes=%d steps=%d evaluations=%d outcomes=%d bound>=%d exhaustive=%v wall=%.1fs\n",
		id, *tier, len(allStats), execs, points, steps, evals, outcomes+distinct, minBound, exhaustive, ev.WallS)
	if unlisted > 0 {
		return 1
	}
	return 0
}

func oneLine(s string, n int) string {
	s = strings.ReplaceAll(s, "\n", " | ")
	if len(s) > n {
		s = s[:n] + "..."
	}
	return s
}
