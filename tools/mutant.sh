#!/bin/bash
# usage: mutant.sh <patch.diff> <ID> [ID...]   -- apply a property-breaking patch to /repo, run the checks, undo.
set -u
patch=$1; shift
cd /repo || exit 2
if ! git diff --quiet; then echo "refusing: /repo has uncommitted changes"; exit 2; fi
git apply "$patch" || { echo "patch does not apply"; exit 2; }
trap 'git -C /repo checkout -- . ; git -C /repo clean -fdq' EXIT
for id in "$@"; do
  out=$(VCHECK_EVIDENCE_DIR=/tmp/mutant-evidence /verif/bin/vcheck run "$id" ${TIER:+-tier $TIER} 2>&1); code=$?
  echo "== $(basename $patch) $id exit=$code"
  echo "$out" | grep -E "VIOLATION|rule=|HARNESS-ERROR|KNOWN-FINDING|exhaustive" | head -${LINES_MAX:-8}
done
