#!/bin/bash
# usage: mutant.sh <patch.diff> <ID> [ID...]   -- apply a property-breaking patch to a scratch worktree of /repo's
# main, run the checks against it (VERIF_REPO), remove the worktree. /repo itself is not touched and the
# evidence of the real tree is not overwritten (VCHECK_EVIDENCE_DIR).
set -u
patch=$1; shift
wt=$(mktemp -d /tmp/mut.XXXXXX)
rmdir $wt
git -C /repo worktree add -q --detach $wt main || exit 2
trap 'git -C /repo worktree remove --force '$wt' 2>/dev/null; git -C /repo worktree prune' EXIT
git -C $wt apply "$patch" || { echo "patch does not apply"; exit 2; }
for id in "$@"; do
  out=$(VERIF_REPO=$wt VCHECK_EVIDENCE_DIR=/tmp/mutant-evidence /verif/bin/vcheck run "$id" ${TIER:+-tier $TIER} 2>&1); code=$?
  echo "== $(basename $patch) $id exit=$code"
  echo "$out" | grep -E "VIOLATION|rule=|HARNESS-ERROR|KNOWN-FINDING|exhaustive" | head -${LINES_MAX:-8}
done
