#!/usr/bin/env python3
# merge: instrument overlay + shims + one harness dir -> overlay.json
import json, os, sys, glob
inst, harness, out = sys.argv[1], sys.argv[2], sys.argv[3]
ov = json.load(open(os.path.join(inst, 'overlay.json')))['Replace']
for d in sorted(os.listdir('/verif/shim')):
    for f in glob.glob('/verif/shim/%s/*.go' % d):
        ov['/repo/internal/verif/%s/%s' % (d, os.path.basename(f))] = f
hn = os.path.basename(harness.rstrip('/'))
for f in glob.glob(harness.rstrip('/') + '/*.go'):
    ov['/repo/internal/verif/h_%s/%s' % (hn, os.path.basename(f))] = f
json.dump({'Replace': ov}, open(out, 'w'), indent=1)
