#!/opt/veriftools/pyvenv/bin/python
import json, jsonschema, glob, sys
m=json.load(open('/verif/MANIFEST.json')); jsonschema.validate(m,json.load(open('/root/.vp/MANIFEST.schema.json')))
es=json.load(open('/root/.vp/EVIDENCE.schema.json'))
ids=set()
for c in m['checks']:
    ids.add(c['property_id'])
    try:
        e=json.load(open(c['evidence_file'])); jsonschema.validate(e,es)
        assert e['level']==c['level_claimed']['category'], (c['property_id'], e['level'])
    except Exception as ex:
        print("EVIDENCE PROBLEM", c['property_id'], str(ex)[:300])
na={x['property_id'] for x in m.get('not_applicable',[])}
allp={json.loads(l)['id'] for l in open('/verif/properties.jsonl')}
print("claimed",sorted(ids)); print("not_applicable",sorted(na)); print("unaccounted",sorted(allp-ids-na))
