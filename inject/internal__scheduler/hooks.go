//go:build verif

package scheduler

import (
	"github.com/kercylan98/vivid/internal/verif/vrt"
	"github.com/reugn/go-quartz/quartz"
)

func init() {
	quartz.VNow = func() int64 { return vrt.BaseUnixNano + vrt.Now() }
	quartz.VAddTimer = vrt.AddTimer
	quartz.VSpawn = vrt.Spawn
	quartz.VPoint = func() { vrt.Point(vrt.KLock, 0) }
	quartz.VBlock = func(why string, pred func() bool) { vrt.Block(vrt.KBlock, 0, why, pred) }
}
