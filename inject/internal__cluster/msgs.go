//go:build verif

package cluster

import "github.com/kercylan98/vivid"

// VerifSingletonForwarded builds the unexported forwarded-message wrapper.
func VerifSingletonForwarded(sender vivid.ActorRef, message any, addr, path string) any {
	return &singletonForwardedMessage{sender: sender, message: message, senderAddr: addr, senderPath: path}
}

// VerifSingletonForwardedDump exposes its fields.
func VerifSingletonForwardedDump(m any) (sender vivid.ActorRef, message any, addr, path string) {
	s := m.(*singletonForwardedMessage)
	return s.sender, s.message, s.senderAddr, s.senderPath
}
