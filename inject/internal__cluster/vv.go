//go:build verif

package cluster

import "sort"

// VerifVV builds a vector holding exactly the given entries (explicit zeros included).
// nilMap=true yields the zero-value struct.
func VerifVV(entries map[string]uint64, nilMap bool) VersionVector {
	if nilMap {
		return VersionVector{}
	}
	v := NewVersionVector()
	for k, c := range entries {
		v.m[k] = c
	}
	v.dirty = true
	return v
}

// VerifVVDump returns the stored entries (sorted) and whether the map is nil.
func VerifVVDump(v VersionVector) (entries []NodeCount, nilMap bool) {
	if v.m == nil {
		return nil, true
	}
	for k, c := range v.m {
		entries = append(entries, NodeCount{Node: k, Count: c})
	}
	sort.Slice(entries, func(i, j int) bool { return entries[i].Node < entries[j].Node })
	return entries, false
}

const VerifMaxCounter = maxCounterValue
