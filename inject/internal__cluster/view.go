//go:build verif

package cluster

// VerifNewView / VerifNewNodeState expose the unexported constructors.
func VerifNewView() *ClusterView { return newClusterView() }

func VerifNewNodeState(id, clusterName, address string) *NodeState {
	return newNodeState(id, clusterName, address)
}

// VerifNodeView exposes a node's current view and own state (read without scheduling points).
func VerifNodeView(a *NodeActor) (*ClusterView, *NodeState) { return a.clusterView, a.nodeState }
