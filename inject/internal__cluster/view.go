//go:build verif

package cluster

// VerifNewView / VerifNewNodeState expose the unexported constructors.
func VerifNewView() *ClusterView { return newClusterView() }

func VerifNewNodeState(id, clusterName, address string) *NodeState {
	return newNodeState(id, clusterName, address)
}
