//go:build verif

package messages

import (
	"reflect"
	"sort"
)

// VerifRegistry lists the registered wire names with their Go types.
func VerifRegistry() (names []string, types map[string]reflect.Type) {
	types = map[string]reflect.Type{}
	for n, d := range internalMessageNameOfDesc {
		names = append(names, n)
		types[n] = d.typeOf
	}
	sort.Strings(names)
	return
}

// VerifWrite / VerifRead call a registered type's writer / reader directly.
func VerifWrite(name string, message any, w *Writer, codec Codec) error {
	return internalMessageNameOfDesc[name].writer(message, w, codec)
}

func VerifRead(name string, r *Reader, codec Codec) (any, error) {
	d := internalMessageNameOfDesc[name]
	m := d.Instance()
	if err := d.reader(m, r, codec); err != nil {
		return nil, err
	}
	return m, nil
}
