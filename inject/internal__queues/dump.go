//go:build verif

package queues

// VerifLen reads the length without a scheduling point.
func (q *RingQueue) VerifLen() int64 { return q.len }
