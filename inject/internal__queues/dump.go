//go:build verif

package queues

// VerifLen reads the length without a scheduling point.
func (q *RingQueue) VerifLen() int64 { return q.len }

// VerifClone deep-copies the queue (plain memory copy, no scheduling points).
func (q *RingQueue) VerifClone() *RingQueue {
	c := q.content
	nb := &ringBuffer{buffer: append([]interface{}(nil), c.buffer...), head: c.head, tail: c.tail, mod: c.mod}
	return &RingQueue{len: q.len, content: nb}
}

// VerifGeometry returns head, tail and capacity.
func (q *RingQueue) VerifGeometry() (head, tail, mod int64) {
	return q.content.head, q.content.tail, q.content.mod
}
