//go:build verif

package mailbox

// VerifState reads the private state without scheduling points.
func (m *UnboundedMailbox) VerifState() (userQ, sysQ int64, num, sysNum int32, status, paused uint32) {
	return m.buffer.VerifLen(), m.systemBuffer.VerifLen(), m.num, m.systemNum, m.status, m.paused
}
