//go:build verif

package actor

import "github.com/kercylan98/vivid"

// VerifRefWithMailbox returns a fresh local reference whose mailbox cache points at mb, so
// that the real tell path delivers into mb without any actor behind the path.
func VerifRefWithMailbox(path string, mb vivid.Mailbox) *Ref {
	r, err := NewRef(LocalAddress, path)
	if err != nil {
		panic(err)
	}
	r.cache.Store(&mb)
	return r
}

// VerifEventStream returns the system's event stream without going through the root context.
func VerifEventStream(s *System) vivid.EventStream { return s.eventStream }

// VerifActorOf returns the actor instance behind a context.
func VerifActorOf(c *Context) vivid.Actor { return c.actor }
