//go:build verif

package actor

import (
	"fmt"
	"sort"

	"github.com/kercylan98/vivid"
	"github.com/kercylan98/vivid/internal/future"
	"github.com/kercylan98/vivid/internal/mailbox"
)

// VCtx is a snapshot of one Context's private state (read without scheduling points).
type VCtx struct {
	Path       string
	State      int32 // 0 running, 1 killing, 2 killed
	Zombie     bool
	Restarting bool
	Paused     bool
	Children   []string
	Watchers   []string
	Stash      int
	Jobs       []string
	UserQ      int64
	SysQ       int64
	MbStatus   uint32
	Behaviors  int
}

func VerifCtx(c *Context) VCtx {
	d := VCtx{Path: c.ref.GetPath(), State: c.state, Zombie: c.zombie, Restarting: c.restarting != nil, Stash: len(c.stash), Behaviors: len(c.behaviorStack.behaviors)}
	for p := range c.children {
		d.Children = append(d.Children, p)
	}
	sort.Strings(d.Children)
	for w := range c.watchers {
		d.Watchers = append(d.Watchers, w)
	}
	sort.Strings(d.Watchers)
	if c.scheduler != nil {
		for r := range c.scheduler.jobKeys {
			d.Jobs = append(d.Jobs, r)
		}
		sort.Strings(d.Jobs)
	}
	if mb, ok := c.mailbox.(*mailbox.UnboundedMailbox); ok {
		var p uint32
		d.UserQ, d.SysQ, _, _, d.MbStatus, p = mb.VerifState()
		d.Paused = p == 1
	}
	return d
}

// VSys is a snapshot of the System's registries.
type VSys struct {
	Registry        []string // "path" for contexts, "path(future)" for futures
	Contexts        []*Context
	FutureAgents    int
	FutureAgentRefs int
	Subscribers     map[string][]string // event type -> subscriber paths
	SubscriberTypes map[string][]string // subscriber path -> event types
	Status          int32
}

func VerifSys(s *System) VSys {
	d := VSys{Subscribers: map[string][]string{}, SubscriberTypes: map[string][]string{}, Status: s.status}
	keys, vals := s.actorContexts.VerifSnapshot()
	for i, k := range keys {
		switch v := vals[i].(type) {
		case *Context:
			d.Registry = append(d.Registry, fmt.Sprint(k))
			d.Contexts = append(d.Contexts, v)
		case *future.Future[vivid.Message]:
			d.Registry = append(d.Registry, fmt.Sprint(k)+"(future)")
		default:
			d.Registry = append(d.Registry, fmt.Sprintf("%v(%T)", k, v))
		}
	}
	sort.Strings(d.Registry)
	d.FutureAgents = len(s.futureAgents)
	for _, m := range s.futureAgents {
		d.FutureAgentRefs += len(m)
	}
	if es, ok := s.eventStream.(*eventStream); ok {
		for t, subs := range es.subscribers {
			for p := range subs {
				d.Subscribers[fmt.Sprint(t)] = append(d.Subscribers[fmt.Sprint(t)], p)
			}
			sort.Strings(d.Subscribers[fmt.Sprint(t)])
		}
		for p, ts := range es.subscriberTypes {
			for t := range ts {
				d.SubscriberTypes[p] = append(d.SubscriberTypes[p], fmt.Sprint(t))
			}
			sort.Strings(d.SubscriberTypes[p])
		}
	}
	return d
}

// VerifRoot returns the root context (nil before Start).
func VerifRoot(s *System) *Context { return s.Context }

// VerifCtxOf resolves a path to its registered context.
func VerifCtxOf(s *System, path string) *Context {
	keys, vals := s.actorContexts.VerifSnapshot()
	for i, k := range keys {
		if fmt.Sprint(k) == path {
			if c, ok := vals[i].(*Context); ok {
				return c
			}
		}
	}
	return nil
}
