package quartz

// Virtual-time replacement for go-quartz's StdScheduler, dropped into a scratch copy of the
// go-quartz module by /verif/bin/vcheck (the real scheduler.go is removed from that copy).
// It keeps quartz's data model (the real JobQueue, JobDetail, JobKey and Trigger code, the
// real validate / reschedule arithmetic) and replaces only the goroutine plumbing of the
// execution loop: instead of a goroutine sleeping on a time.Timer, the head of the queue is
// armed as a timer of the controlled scheduler, and a due job runs on a scheduler thread of
// its own (as the real scheduler does with `go executeWithRetries`).

import (
	"context"
	"errors"
	"math"
	"sync"
	"time"

	"github.com/reugn/go-quartz/logger"
)

// Hooks set by the instrumented vivid build (internal/scheduler, file injected by /verif).
var (
	VNow      func() int64 // virtual Unix nanoseconds
	VAddTimer func(d int64, name string, fire func()) (cancel func() bool)
	VSpawn    func(name string, f func())
	VPoint    func()
	VBlock    func(why string, pred func() bool)
)

func vnow() int64 {
	if VNow != nil {
		return VNow()
	}
	return NowNano()
}

func vpoint() {
	if VPoint != nil {
		VPoint()
	}
}

type ScheduledJob interface {
	JobDetail() *JobDetail
	Trigger() Trigger
	NextRunTime() int64
}

type Scheduler interface {
	Start(context.Context)
	IsStarted() bool
	ScheduleJob(jobDetail *JobDetail, trigger Trigger) error
	GetJobKeys(...Matcher[ScheduledJob]) ([]*JobKey, error)
	GetScheduledJob(jobKey *JobKey) (ScheduledJob, error)
	DeleteJob(jobKey *JobKey) error
	PauseJob(jobKey *JobKey) error
	ResumeJob(jobKey *JobKey) error
	Clear() error
	Wait(context.Context)
	Stop()
}

type contextKey string

const JobMetadataContextKey = contextKey("JobMetadata")

type StdScheduler struct {
	started     bool
	ctx         context.Context
	cancel      context.CancelFunc
	cancelTimer func() bool
	queue       JobQueue
	queueLocker sync.Locker
	opts        SchedulerConfig
	logger      logger.Logger
	// worker pool / blocking execution (see dispatch): the execution loop is blocked while stalled != nil
	busy    int
	stalled func()
}

var _ Scheduler = (*StdScheduler)(nil)

type SchedulerConfig struct {
	BlockingExecution bool
	WorkerLimit       int
	OutdatedThreshold time.Duration
	RetryInterval     time.Duration
	MisfiredChan      chan ScheduledJob
	JobMetadata       bool
}

type JobMetadata struct {
	RunTime int64
}

type SchedulerOpt func(*StdScheduler) error

func WithBlockingExecution() SchedulerOpt {
	return func(c *StdScheduler) error { c.opts.BlockingExecution = true; return nil }
}
func WithJobMetadata() SchedulerOpt {
	return func(c *StdScheduler) error { c.opts.JobMetadata = true; return nil }
}
func WithWorkerLimit(workerLimit int) SchedulerOpt {
	return func(c *StdScheduler) error {
		if workerLimit < 0 {
			return newIllegalArgumentError("workerLimit must be non-negative")
		}
		c.opts.WorkerLimit = workerLimit
		return nil
	}
}
func WithOutdatedThreshold(d time.Duration) SchedulerOpt {
	return func(c *StdScheduler) error { c.opts.OutdatedThreshold = d; return nil }
}
func WithRetryInterval(d time.Duration) SchedulerOpt {
	return func(c *StdScheduler) error { c.opts.RetryInterval = d; return nil }
}
func WithMisfiredChan(ch chan ScheduledJob) SchedulerOpt {
	return func(c *StdScheduler) error {
		if ch == nil {
			return newIllegalArgumentError("misfiredChan is nil")
		}
		c.opts.MisfiredChan = ch
		return nil
	}
}
func WithQueue(queue JobQueue, queueLocker sync.Locker) SchedulerOpt {
	return func(c *StdScheduler) error {
		if queue == nil {
			return newIllegalArgumentError("queue is nil")
		}
		if queueLocker == nil {
			return newIllegalArgumentError("queueLocker is nil")
		}
		c.queue = queue
		c.queueLocker = queueLocker
		return nil
	}
}
func WithLogger(l logger.Logger) SchedulerOpt {
	return func(c *StdScheduler) error {
		if l == nil {
			return newIllegalArgumentError("logger is nil")
		}
		c.logger = l
		return nil
	}
}

func NewStdScheduler(opts ...SchedulerOpt) (Scheduler, error) {
	s := &StdScheduler{
		queue:       NewJobQueue(),
		queueLocker: &sync.Mutex{},
		opts:        SchedulerConfig{OutdatedThreshold: 100 * time.Millisecond, RetryInterval: 100 * time.Millisecond},
		logger:      logger.NoOpLogger{},
	}
	for _, opt := range opts {
		if err := opt(s); err != nil {
			return nil, err
		}
	}
	return s, nil
}

func (sched *StdScheduler) rearm() {
	if sched.cancelTimer != nil {
		sched.cancelTimer()
		sched.cancelTimer = nil
	}
	if !sched.started || VAddTimer == nil {
		return
	}
	if sched.stalled != nil {
		return // the execution loop is blocked handing a job to a worker: nothing is fetched until it gets through
	}
	head, err := sched.queue.Head()
	if err != nil {
		return
	}
	if head.NextRunTime() == math.MaxInt64 {
		return // only suspended jobs
	}
	d := head.NextRunTime() - vnow()
	if d < 0 {
		d = 0
	}
	sched.cancelTimer = VAddTimer(d, "quartz-tick", sched.tick)
}

// tick runs with the baton held, on the scheduler's behalf: it must not block.
func (sched *StdScheduler) tick() {
	sched.cancelTimer = nil
	if !sched.started {
		return
	}
	scheduled, valid := sched.fetchAndReschedule()
	if valid {
		ctx := sched.ctx
		if sched.opts.JobMetadata {
			ctx = context.WithValue(ctx, JobMetadataContextKey, JobMetadata{RunTime: scheduled.NextRunTime()})
		}
		jd := scheduled.JobDetail()
		sched.dispatch(func() { sched.executeWithRetries(ctx, jd) }, "quartz-job:"+jd.jobKey.String())
	}
	sched.rearm()
}

// dispatch models the three execution modes of the real scheduler. Default: one goroutine per firing. WorkerLimit n > 0: the
// execution loop hands the job to one of n workers and WAITS until one accepts it - while it waits no other job is fetched, and
// jobs that become overdue by more than OutdatedThreshold in the meantime are treated as misfired when the loop resumes.
// BlockingExecution: the loop runs the job itself (a pool of one whose job the loop also waits for).
func (sched *StdScheduler) dispatch(run func(), name string) {
	limit := sched.opts.WorkerLimit
	if sched.opts.BlockingExecution {
		limit = 1
	}
	if limit <= 0 {
		VSpawn(name, run)
		return
	}
	start := func() {
		sched.busy++
		VSpawn(name, func() {
			run()
			sched.busy--
			if next := sched.stalled; next != nil {
				sched.stalled = nil
				next()
				sched.rearm()
			} else if sched.opts.BlockingExecution {
				sched.rearm()
			}
		})
	}
	if sched.busy < limit {
		start()
		if sched.opts.BlockingExecution {
			sched.stalled = func() {} // the loop itself is busy until the job returns
		}
		return
	}
	sched.stalled = start
}

func (sched *StdScheduler) executeWithRetries(ctx context.Context, jobDetail *JobDetail) {
	defer func() {
		if err := recover(); err != nil {
			sched.logger.Error("Job panicked", "key", jobDetail.jobKey.String(), "error", err)
		}
	}()
	_ = jobDetail.job.Execute(ctx) // retries (MaxRetries > 0) are not modelled; vivid never sets them
}

func (sched *StdScheduler) validateJob(job ScheduledJob) (bool, func() (int64, error)) {
	if job.JobDetail().opts.Suspended {
		return false, func() (int64, error) { return math.MaxInt64, nil }
	}
	now := vnow()
	if job.NextRunTime() < now-sched.opts.OutdatedThreshold.Nanoseconds() {
		select {
		case sched.opts.MisfiredChan <- job:
		default:
		}
		return false, func() (int64, error) { return job.Trigger().NextFireTime(now) }
	} else if job.NextRunTime() > now {
		return false, func() (int64, error) { return job.NextRunTime(), nil }
	}
	return true, func() (int64, error) { return job.Trigger().NextFireTime(job.NextRunTime()) }
}

func (sched *StdScheduler) fetchAndReschedule() (ScheduledJob, bool) {
	job, err := sched.queue.Pop()
	if err != nil {
		return nil, false
	}
	valid, next := sched.validateJob(job)
	nextRunTime, err := next()
	if err != nil {
		return job, valid // the trigger is exhausted (run-once)
	}
	_ = sched.queue.Push(&scheduledJob{job: job.JobDetail(), trigger: job.Trigger(), priority: nextRunTime})
	return job, valid
}

func (sched *StdScheduler) ScheduleJob(jobDetail *JobDetail, trigger Trigger) error {
	if jobDetail == nil {
		return newIllegalArgumentError("jobDetail is nil")
	}
	if jobDetail.jobKey == nil {
		return newIllegalArgumentError("jobDetail.jobKey is nil")
	}
	if jobDetail.jobKey.name == "" {
		return newIllegalArgumentError("empty key name is not allowed")
	}
	if trigger == nil {
		return newIllegalArgumentError("trigger is nil")
	}
	vpoint()
	nextRunTime := int64(math.MaxInt64)
	var err error
	if !jobDetail.opts.Suspended {
		nextRunTime, err = trigger.NextFireTime(vnow())
		if err != nil {
			return err
		}
	}
	err = sched.queue.Push(&scheduledJob{job: jobDetail, trigger: trigger, priority: nextRunTime})
	if err == nil {
		sched.rearm()
	}
	return err
}

func (sched *StdScheduler) Start(ctx context.Context) {
	vpoint()
	if sched.started {
		return
	}
	sched.ctx, sched.cancel = context.WithCancel(ctx)
	sched.started = true
	if VSpawn != nil && VBlock != nil {
		// stands for the real scheduler's execution-loop goroutine: it lives until Stop
		VSpawn("quartz-loop", func() { VBlock("quartz execution loop (until Scheduler.Stop)", func() bool { return !sched.started }) })
	}
	sched.rearm()
}

func (sched *StdScheduler) Wait(ctx context.Context) {}

func (sched *StdScheduler) IsStarted() bool { return sched.started }

func (sched *StdScheduler) GetJobKeys(matchers ...Matcher[ScheduledJob]) ([]*JobKey, error) {
	vpoint()
	jobs, err := sched.queue.ScheduledJobs(matchers)
	if err != nil {
		return nil, err
	}
	keys := make([]*JobKey, 0, len(jobs))
	for _, j := range jobs {
		keys = append(keys, j.JobDetail().jobKey)
	}
	return keys, nil
}

func (sched *StdScheduler) GetScheduledJob(jobKey *JobKey) (ScheduledJob, error) {
	if jobKey == nil {
		return nil, newIllegalArgumentError("jobKey is nil")
	}
	vpoint()
	return sched.queue.Get(jobKey)
}

func (sched *StdScheduler) DeleteJob(jobKey *JobKey) error {
	if jobKey == nil {
		return newIllegalArgumentError("jobKey is nil")
	}
	vpoint()
	_, err := sched.queue.Remove(jobKey)
	if err == nil {
		sched.rearm()
	}
	return err
}

func (sched *StdScheduler) PauseJob(jobKey *JobKey) error {
	if jobKey == nil {
		return newIllegalArgumentError("jobKey is nil")
	}
	vpoint()
	job, err := sched.queue.Get(jobKey)
	if err != nil {
		return err
	}
	if job.JobDetail().opts.Suspended {
		return newIllegalStateError(ErrJobIsSuspended)
	}
	job, err = sched.queue.Remove(jobKey)
	if err == nil {
		job.JobDetail().opts.Suspended = true
		err = sched.queue.Push(&scheduledJob{job: job.JobDetail(), trigger: job.Trigger(), priority: int64(math.MaxInt64)})
		sched.rearm()
	}
	return err
}

func (sched *StdScheduler) ResumeJob(jobKey *JobKey) error {
	if jobKey == nil {
		return newIllegalArgumentError("jobKey is nil")
	}
	vpoint()
	job, err := sched.queue.Get(jobKey)
	if err != nil {
		return err
	}
	if !job.JobDetail().opts.Suspended {
		return newIllegalStateError(ErrJobIsActive)
	}
	job, err = sched.queue.Remove(jobKey)
	if err == nil {
		job.JobDetail().opts.Suspended = false
		var next int64
		next, err = job.Trigger().NextFireTime(vnow())
		if err != nil {
			return err
		}
		err = sched.queue.Push(&scheduledJob{job: job.JobDetail(), trigger: job.Trigger(), priority: next})
		sched.rearm()
	}
	return err
}

func (sched *StdScheduler) Clear() error {
	vpoint()
	err := sched.queue.Clear()
	if err == nil {
		sched.rearm()
	}
	return err
}

func (sched *StdScheduler) Stop() {
	vpoint()
	if !sched.started {
		return
	}
	sched.cancel()
	sched.started = false
	sched.rearm()
}

func (sched *StdScheduler) Reset() { sched.rearm() }

var _ = errors.Is
