#!/bin/bash
# Builds the verification tooling from files on disk only (offline).
set -e
export PATH=/opt/veriftools/go1.26.8/bin:$PATH GOFLAGS=-mod=mod GOPROXY=off GOSUMDB=off GOTOOLCHAIN=local GOWORK=off
cd /verif/tools
mkdir -p /verif/bin /verif/evidence /verif/replays /verif/.cache
go build -o /verif/bin/ ./cmd/...
# warm the build cache (instrumented vivid + shims) so that the first check does not pay for it
/verif/bin/vcheck build c01 >/dev/null
echo "setup ok"
