// Package vexp is the stateless depth-first explorer over choice sequences of vrt
// executions (deviation-bounded: preemption bound or delay bound), plus the worker-side
// command line shared by all schedule-exploration harnesses.
package vexp

import (
	"crypto/sha1"
	"encoding/hex"
	"encoding/json"
	"flag"
	"fmt"
	"os"
	"sort"
	"strconv"
	"strings"
	"time"

	"github.com/kercylan98/vivid/internal/verif/vrt"
)

// Failure is one oracle rule violated in one execution.
type Failure struct {
	Rule   string `json:"rule"`
	Detail string `json:"detail"`
}

// X is the per-execution harness context.
type X struct {
	Log     []string
	Fails   []Failure
	outcome string
	Tags    map[string]bool // facts about this execution for vacuity accounting (e.g. "overlap-possible")
}

func (x *X) Logf(format string, a ...any) { x.Log = append(x.Log, fmt.Sprintf(format, a...)) }
func (x *X) Fail(rule, format string, a ...any) {
	x.Fails = append(x.Fails, Failure{Rule: rule, Detail: fmt.Sprintf(format, a...)})
}
func (x *X) Outcome(s string) { x.outcome = s }
func (x *X) Tag(s string) {
	if x.Tags == nil {
		x.Tags = map[string]bool{}
	}
	x.Tags[s] = true
}

// Scenario is one closed system to explore.
type Scenario struct {
	Name   string
	Cfg    vrt.Config
	Bounds []int                     // deviation bounds to complete, in order (e.g. 0,1,2)
	Setup  func(x *X)                // runs before thread 0 starts (outside the scheduler, exec active)
	Body   func(x *X)                // thread 0
	Post   func(x *X, r *vrt.Result) // after the execution ended (outside the scheduler)
	Family string                    // for reporting
	// AllowBlocked lists substrings of "name: why" entries of Result.Blocked that are legitimate.
	AllowBlocked []string
	NoSpinRule   bool // do not turn vrt spin reports into failures (rare)
	CheckRaces   bool // run the happens-before race detector and fail on any reported race
	AccessPoints bool // plain field/map accesses are scheduling points (fine mode only)
	// Shards > 1 splits the exploration tree of this scenario over several Scenario values (built with
	// Split): the subtrees below the root execution are dealt round-robin, shard k takes those with
	// index%Shards == k. Every shard runs the root execution; the union of the shards is the whole tree.
	Shard, Shards int
}

// Fine turns a coarse (message-level) scenario into its hybrid variant: lock / atomic operations issued
// by the given packages (substrings of function names, e.g. "vivid/internal/actor.") are switch points too.
func Fine(sc *Scenario, pkgs ...string) *Scenario {
	sc.Cfg.FinePkgs = pkgs
	sc.Name += "/fine"
	return sc
}

// Split returns n copies of the scenario produced by mk, each exploring its share of the tree.
func Split(n int, mk func() *Scenario) []*Scenario {
	var out []*Scenario
	for k := 0; k < n; k++ {
		sc := mk()
		sc.Shard, sc.Shards = k, n
		sc.Name = fmt.Sprintf("%s#shard%d/%d", sc.Name, k, n)
		out = append(out, sc)
	}
	return out
}

type Violation struct {
	Scenario string   `json:"scenario"`
	Rule     string   `json:"rule"`
	Detail   string   `json:"detail"`
	Choices  []int    `json:"choices"`
	Bound    int      `json:"bound"`
	Cost     int      `json:"cost"`
	Log      []string `json:"log,omitempty"`
	Count    int      `json:"count"` // executions of this scenario violating this rule
}

type ScenarioStats struct {
	Name           string         `json:"name"`
	Family         string         `json:"family,omitempty"`
	Executions     int64          `json:"executions"`
	Points         int64          `json:"points"`   // decision nodes of the execution tree visited
	Steps          int64          `json:"steps"`    // scheduling points executed
	Outcomes       int            `json:"outcomes"` // distinct observable outcomes
	BoundCompleted int            `json:"bound_completed"`
	Exhaustive     bool           `json:"exhaustive"` // every requested bound was completed
	Unbounded      bool           `json:"unbounded"`  // the largest bound explored pruned nothing: the whole schedule space was covered
	MaxThreads     int            `json:"max_threads"`
	MaxDecisions   int            `json:"max_decisions"`
	Tags           map[string]int `json:"tags,omitempty"`
	SampleTrace    []string       `json:"sample_trace,omitempty"`
}

type Report struct {
	Property      string          `json:"property"`
	Harness       string          `json:"harness"`
	Tier          string          `json:"tier"`
	Shard         string          `json:"shard"`
	Scenarios     []ScenarioStats `json:"scenarios"`
	Violations    []Violation     `json:"violations"`
	HarnessErrors []string        `json:"harness_errors"`
	WallS         float64         `json:"wall_s"`
	DeadlineHit   bool            `json:"deadline_hit"`
}

func cost(cfg *vrt.Config, p *vrt.PointInfo, alt int) int {
	if alt == p.Chosen && false {
		return 0
	}
	if alt == 0 {
		return 0
	}
	if p.Env {
		return 1
	}
	if p.Tids != nil && p.Tids[alt] == -1 {
		return 1 // timer deviation
	}
	if cfg.Cost == vrt.CostPreempt {
		if p.CurEnabled {
			return 1
		}
		return 0
	}
	if !p.CurEnabled && cfg.FreeAtExit {
		return 0
	}
	return alt
}

type runOut struct {
	x *X
	r *vrt.Result
}

func runOnce(sc *Scenario, prefix []int) runOut {
	x := &X{}
	r := vrt.Run(sc.Cfg, prefix, func() {
		if sc.CheckRaces {
			vrt.EnableRaces()
		}
		if sc.AccessPoints {
			vrt.AccessPoints(true)
		}
		if sc.Setup != nil {
			sc.Setup(x)
		}
	}, func() { sc.Body(x) })
	if r.ReplayErr == "" {
		if r.Panic != "" {
			x.Fail("no-crash", "uncaught panic: %s", firstLines(r.Panic, 12))
		}
		if r.Runaway {
			x.Fail("no-runaway", "execution exceeded its step budget (%d scheduling points): unbounded work", r.Steps)
		}
		if !sc.NoSpinRule {
			for _, s := range r.Spins {
				if s.AtQuiescence {
					x.Fail("no-spin", "thread %s busy-waits while nothing else can run: %s", s.Thread, s.Stack)
				} else {
					x.Tag("transient-spin-wait")
				}
			}
		}
		if sc.CheckRaces {
			for _, rc := range r.Races {
				x.Fail("no-data-race", "data race: %s  ||  %s", rc.First, rc.Second)
			}
		}
		// a body that never returns never reaches its oracle: that must not pass silently
		for _, b := range r.Blocked {
			if !strings.HasPrefix(b, "main: ") {
				continue
			}
			ok := false
			for _, a := range sc.AllowBlocked {
				ok = ok || strings.Contains(b, a)
			}
			if !ok && r.Panic == "" && !r.Runaway {
				x.Fail("body-completes", "the scenario body is still blocked when nothing can run any more (%s); blocked threads: %v", b, r.Blocked)
			}
		}
		if sc.Post != nil {
			sc.Post(x, r)
		}
	}
	return runOut{x, r}
}

func firstLines(s string, n int) string {
	l := strings.Split(s, "\n")
	if len(l) > n {
		l = l[:n]
	}
	return strings.Join(l, " | ")
}

func choicesOf(r *vrt.Result) []int {
	c := make([]int, len(r.Points))
	for i, p := range r.Points {
		c[i] = p.Chosen
	}
	return c
}

func hashStrings(ss []string) string {
	h := sha1.New()
	for _, s := range ss {
		h.Write([]byte(s))
		h.Write([]byte{0})
	}
	return hex.EncodeToString(h.Sum(nil))[:16]
}

// Explorer explores one scenario.
type Explorer struct {
	Sc       *Scenario
	Deadline time.Time
	Stats    ScenarioStats
	Viol     map[string]*Violation // by rule
	outcomes map[string]struct{}
	HErr     []string
	hit      bool
}

func (e *Explorer) record(o runOut, bound, c int) {
	e.Stats.Executions++
	e.Stats.Points += int64(len(o.r.Points))
	e.Stats.Steps += int64(o.r.Steps)
	if o.r.MaxThreads > e.Stats.MaxThreads {
		e.Stats.MaxThreads = o.r.MaxThreads
	}
	if len(o.r.Points) > e.Stats.MaxDecisions {
		e.Stats.MaxDecisions = len(o.r.Points)
	}
	oc := o.x.outcome
	if oc == "" {
		oc = hashStrings(o.x.Log)
	}
	e.outcomes[oc] = struct{}{}
	for t := range o.x.Tags {
		if e.Stats.Tags == nil {
			e.Stats.Tags = map[string]int{}
		}
		e.Stats.Tags[t]++
	}
	for _, f := range o.x.Fails {
		v := e.Viol[f.Rule]
		if v == nil {
			v = &Violation{Scenario: e.Sc.Name, Rule: f.Rule, Detail: f.Detail, Choices: choicesOf(o.r), Bound: bound, Cost: c, Log: o.x.Log}
			e.Viol[f.Rule] = v
		}
		v.Count++
	}
}

// Run explores all requested bounds (each bound re-explores the smaller ones: the first
// counterexample therefore has the fewest deviations).
func (e *Explorer) Run() {
	sc := e.Sc
	e.Viol = map[string]*Violation{}
	e.outcomes = map[string]struct{}{}
	e.Stats.Name = sc.Name
	e.Stats.Family = sc.Family
	e.Stats.BoundCompleted = -1
	// determinism self-check: the default schedule twice
	a := runOnce(sc, nil)
	b := runOnce(sc, nil)
	if a.r.ReplayErr != "" || strings.Join(a.x.Log, "\n") != strings.Join(b.x.Log, "\n") || fmt.Sprint(choicesOf(a.r)) != fmt.Sprint(choicesOf(b.r)) {
		// The same schedule behaved differently twice: state leaks from one execution into the next
		// (package-level state in the code under test). If either run violated the oracle that is a
		// finding about the code, reported as such; otherwise it is a harness problem.
		if len(a.x.Fails)+len(b.x.Fails) > 0 {
			e.record(a, 0, 0)
			e.record(b, 0, 0)
			for _, v := range e.Viol {
				v.Detail += " [note: the default schedule gave different results on its first and second execution in one process: state leaks between executions]"
			}
			e.Stats.Outcomes = len(e.outcomes)
			return
		}
		e.HErr = append(e.HErr, fmt.Sprintf("scenario %s: default schedule is not deterministic (log %d vs %d lines)", sc.Name, len(a.x.Log), len(b.x.Log)))
		return
	}
	e.Stats.SampleTrace = a.x.Log
	if len(e.Stats.SampleTrace) > 40 {
		e.Stats.SampleTrace = e.Stats.SampleTrace[:40]
	}
	bounds := sc.Bounds
	if len(bounds) == 0 {
		bounds = []int{0, 1, 2}
	}
	e.Stats.Exhaustive = true
	for bi, bound := range bounds {
		last := bi == len(bounds)-1
		// counts are reported for the largest bound only (smaller bounds are subsets)
		e.Stats.Executions, e.Stats.Points, e.Stats.Steps = 0, 0, 0
		e.outcomes = map[string]struct{}{}
		e.Stats.Tags = nil
		for _, v := range e.Viol {
			v.Count = 0
		}
		pruned := false
		stack := [][]int{nil}
		for len(stack) > 0 {
			if !e.Deadline.IsZero() && time.Now().After(e.Deadline) {
				e.hit = true
				break
			}
			prefix := stack[len(stack)-1]
			stack = stack[:len(stack)-1]
			o := runOnce(sc, prefix)
			if o.r.ReplayErr != "" {
				e.HErr = append(e.HErr, fmt.Sprintf("scenario %s: replay diverged: %s (prefix %v)", sc.Name, o.r.ReplayErr, prefix))
				return
			}
			pts := o.r.Points
			// cost of the prefix part
			c := 0
			for i := 0; i < len(prefix) && i < len(pts); i++ {
				c += cost(&sc.Cfg, &pts[i], pts[i].Chosen)
			}
			e.record(o, bound, c)
			child := 0
			for i := len(pts) - 1; i >= len(prefix); i-- {
				p := &pts[i]
				if p.Frozen {
					continue
				}
				for alt := p.N - 1; alt >= 1; alt-- {
					if c+cost(&sc.Cfg, p, alt) > bound {
						pruned = true
						continue
					}
					child++
					if len(prefix) == 0 && sc.Shards > 1 && child%sc.Shards != sc.Shard {
						continue // another shard's subtree
					}
					np := make([]int, i+1)
					for k := 0; k < i; k++ {
						np[k] = pts[k].Chosen
					}
					np[i] = alt
					stack = append(stack, np)
				}
			}
		}
		if e.hit {
			e.Stats.Exhaustive = false
			break
		}
		e.Stats.BoundCompleted = bound
		e.Stats.Unbounded = !pruned
		if !pruned {
			break // nothing was cut: larger bounds explore the same tree
		}
		_ = last
	}
	e.Stats.Outcomes = len(e.outcomes)
}

// ---- worker command line ------------------------------------------------------------------

// Main is the main function of a schedule-exploration harness binary.
func Main(property, harness string, build func(tier string) []*Scenario) {
	tier := flag.String("tier", "quick", "quick|thorough")
	indices := flag.String("indices", "", "comma separated scenario indices to explore (default all)")
	out := flag.String("out", "", "report file (default stdout)")
	replay := flag.String("replay", "", "replay file: run exactly that execution")
	list := flag.Bool("list", false, "list scenarios")
	only := flag.String("only", "", "substring filter on scenario names")
	deadline := flag.Float64("deadline", 0, "seconds after which exploration stops (exhaustive=false)")
	maxBound := flag.Int("maxbound", -1, "override: cap on the deviation bound")
	flag.Parse()
	scs := build(*tier)
	if *list {
		for i, s := range scs {
			fmt.Printf("%d %s\n", i, s.Name)
		}
		return
	}
	if *replay != "" {
		os.Exit(doReplay(*replay, scs))
	}
	want := map[int]bool{}
	if *indices != "" {
		for _, f := range strings.Split(*indices, ",") {
			i, err := strconv.Atoi(f)
			if err != nil {
				fmt.Fprintln(os.Stderr, "HARNESS-ERROR bad -indices")
				os.Exit(2)
			}
			want[i] = true
		}
	}
	start := time.Now()
	var dl time.Time
	if *deadline > 0 {
		dl = start.Add(time.Duration(*deadline * float64(time.Second)))
	}
	rep := Report{Property: property, Harness: harness, Tier: *tier, Shard: *indices}
	for i, sc := range scs {
		if len(want) > 0 && !want[i] {
			continue
		}
		if *only != "" { // comma-separated substrings: any of them
			hit := false
			for _, sub := range strings.Split(*only, ",") {
				hit = hit || strings.Contains(sc.Name, sub)
			}
			if !hit {
				continue
			}
		}
		if *maxBound >= 0 {
			var nb []int
			for _, b := range sc.Bounds {
				if b <= *maxBound {
					nb = append(nb, b)
				}
			}
			sc.Bounds = nb
		}
		e := &Explorer{Sc: sc, Deadline: dl}
		e.Run()
		rep.Scenarios = append(rep.Scenarios, e.Stats)
		rules := make([]string, 0, len(e.Viol))
		for r := range e.Viol {
			rules = append(rules, r)
		}
		sort.Strings(rules)
		for _, r := range rules {
			if e.Viol[r].Count > 0 || true {
				rep.Violations = append(rep.Violations, *e.Viol[r])
			}
		}
		rep.HarnessErrors = append(rep.HarnessErrors, e.HErr...)
		if e.hit {
			rep.DeadlineHit = true
		}
	}
	rep.WallS = time.Since(start).Seconds()
	b, _ := json.MarshalIndent(rep, "", " ")
	if *out == "" {
		os.Stdout.Write(b)
		fmt.Println()
	} else if err := os.WriteFile(*out, b, 0o644); err != nil {
		fmt.Fprintln(os.Stderr, err)
		os.Exit(2)
	}
}

// ReplayFile is what a VIOLATION line points to.
type ReplayFile struct {
	Property string   `json:"property"`
	Harness  string   `json:"harness"`
	Tier     string   `json:"tier"`
	Scenario string   `json:"scenario"`
	Rule     string   `json:"rule"`
	Detail   string   `json:"detail"`
	Choices  []int    `json:"choices"`
	Log      []string `json:"log"`
	HowTo    string   `json:"how_to_replay"`
}

func doReplay(path string, scs []*Scenario) int {
	b, err := os.ReadFile(path)
	if err != nil {
		fmt.Fprintln(os.Stderr, "HARNESS-ERROR", err)
		return 2
	}
	var rf ReplayFile
	if err := json.Unmarshal(b, &rf); err != nil {
		fmt.Fprintln(os.Stderr, "HARNESS-ERROR", err)
		return 2
	}
	for _, sc := range scs {
		if sc.Name != rf.Scenario {
			continue
		}
		if os.Getenv("VRT_TRACE") != "" {
			vrt.Trace = func(l string) { fmt.Println("   .", l) }
		}
		o := runOnce(sc, rf.Choices)
		vrt.Trace = nil
		if o.r.ReplayErr != "" {
			fmt.Println("REPLAY-DIVERGED", o.r.ReplayErr)
			return 2
		}
		for _, l := range o.x.Log {
			fmt.Println("  ", l)
		}
		for i, p := range o.r.Points {
			if p.Chosen != 0 {
				fmt.Printf("  deviation at decision %d: option %d of %d tids=%v %s\n", i, p.Chosen, p.N, p.Tids, p.Label)
			}
		}
		hit := false
		for _, f := range o.x.Fails {
			fmt.Printf("FAIL rule=%s %s\n", f.Rule, f.Detail)
			if f.Rule == rf.Rule {
				hit = true
			}
		}
		if hit {
			fmt.Printf("VIOLATION property=%s replay=%s\n", rf.Property, path)
			return 1
		}
		fmt.Println("replay: rule", rf.Rule, "not violated on this tree")
		return 0
	}
	fmt.Fprintln(os.Stderr, "HARNESS-ERROR scenario not found:", rf.Scenario)
	return 2
}

// Itoa is a tiny helper for scenario names.
func Itoa(i int) string { return strconv.Itoa(i) }
