// Package venum is the worker-side helper of the bounded-exhaustive enumeration harnesses:
// plain Go programs that enumerate every value / operation sequence / byte string of a stated
// alphabet, call the real functions and compare with a reference model.
package venum

import (
	"encoding/json"
	"flag"
	"fmt"
	"os"
	"strconv"
	"strings"
	"time"
)

type Violation struct {
	Scenario string `json:"scenario"`
	Rule     string `json:"rule"`
	Detail   string `json:"detail"`
	Input    any    `json:"input,omitempty"`
	Count    int    `json:"count"`
}

type Stats struct {
	Name        string `json:"name"`
	Family      string `json:"family,omitempty"`
	Evaluations int64  `json:"evaluations"`
	Distinct    int64  `json:"distinct"`
	Samples     []any  `json:"samples,omitempty"`
	Exhaustive  bool   `json:"exhaustive"`
	// keep the field names of the schedule explorer so that the runner can aggregate both
	Executions     int64 `json:"executions"`
	BoundCompleted int   `json:"bound_completed"`
}

type Report struct {
	Property      string      `json:"property"`
	Harness       string      `json:"harness"`
	Scenarios     []Stats     `json:"scenarios"`
	Violations    []Violation `json:"violations"`
	HarnessErrors []string    `json:"harness_errors"`
	WallS         float64     `json:"wall_s"`
	DeadlineHit   bool        `json:"deadline_hit"`
	Notes         []string    `json:"notes,omitempty"`
}

// Ctx is handed to a check.
type Ctx struct {
	name     string
	evals    int64
	distinct map[string]struct{}
	dcount   int64
	samples  []any
	viol     map[string]*Violation
	deadline time.Time
	hit      bool
	Tier     string
	notes    []string
	tick     int
}

// Case counts one evaluated case; key identifies it for distinctness (pass "" to count the
// evaluation only; nontrivial=false cases are evaluated but not counted as distinct-nontrivial).
func (c *Ctx) Case(key string, nontrivial bool) {
	c.evals++
	if nontrivial && key != "" {
		if len(c.distinct) < 2_000_000 {
			if _, ok := c.distinct[key]; !ok {
				c.distinct[key] = struct{}{}
				c.dcount++
			}
		} else {
			c.dcount++ // beyond the table size keys are unique by construction of the enumerations
		}
	}
}

// CaseN counts n evaluations without keys.
func (c *Ctx) CaseN(n int64) { c.evals += n }

// DistinctN adds n to the distinct count (for enumerations whose cases are distinct by construction).
func (c *Ctx) DistinctN(n int64) { c.dcount += n }

func (c *Ctx) Sample(v any) {
	if len(c.samples) < 6 {
		c.samples = append(c.samples, v)
	}
}

func (c *Ctx) Note(format string, a ...any) { c.notes = append(c.notes, fmt.Sprintf(format, a...)) }

// Fail records a violation; input must be JSON-serialisable and identify the failing case.
func (c *Ctx) Fail(rule string, input any, format string, a ...any) {
	v := c.viol[rule]
	if v == nil {
		v = &Violation{Scenario: c.name, Rule: rule, Detail: fmt.Sprintf(format, a...), Input: input}
		c.viol[rule] = v
	}
	v.Count++
}

// Risky records the case about to run in the progress file named by $VENUM_PROGRESS, so that a
// fatal (unrecoverable) crash of the process can be attributed to it.
func (c *Ctx) Risky(desc string) {
	if p := os.Getenv("VENUM_PROGRESS"); p != "" {
		os.WriteFile(p, []byte(c.name+" :: "+desc), 0o644)
	}
}

// Expired reports whether the deadline passed (checked cheaply every 4096 calls).
func (c *Ctx) Expired() bool {
	if c.hit {
		return true
	}
	c.tick++
	if c.tick&4095 == 0 && !c.deadline.IsZero() && time.Now().After(c.deadline) {
		c.hit = true
	}
	return c.hit
}

type Check struct {
	Name   string
	Family string
	Run    func(c *Ctx)
}

func Main(property, harness string, build func(tier string) []*Check) {
	tier := flag.String("tier", "quick", "quick|thorough")
	indices := flag.String("indices", "", "comma separated check indices")
	out := flag.String("out", "", "report file")
	replay := flag.String("replay", "", "replay file")
	list := flag.Bool("list", false, "list checks")
	only := flag.String("only", "", "substring filter")
	deadline := flag.Float64("deadline", 0, "seconds")
	flag.Parse()
	checks := build(*tier)
	if *list {
		for i, c := range checks {
			fmt.Printf("%d %s\n", i, c.Name)
		}
		return
	}
	want := map[int]bool{}
	if *indices != "" {
		for _, f := range strings.Split(*indices, ",") {
			i, err := strconv.Atoi(f)
			if err != nil {
				fmt.Fprintln(os.Stderr, "HARNESS-ERROR bad -indices")
				os.Exit(2)
			}
			want[i] = true
		}
	}
	var rf struct {
		Scenario string          `json:"scenario"`
		Rule     string          `json:"rule"`
		Property string          `json:"property"`
		Input    json.RawMessage `json:"input"`
	}
	if *replay != "" {
		b, err := os.ReadFile(*replay)
		if err != nil || json.Unmarshal(b, &rf) != nil {
			fmt.Fprintln(os.Stderr, "HARNESS-ERROR cannot read replay file")
			os.Exit(2)
		}
	}
	start := time.Now()
	var dl time.Time
	if *deadline > 0 {
		dl = start.Add(time.Duration(*deadline * float64(time.Second)))
	}
	rep := Report{Property: property, Harness: harness}
	for i, ch := range checks {
		if len(want) > 0 && !want[i] {
			continue
		}
		if *only != "" && !strings.Contains(ch.Name, *only) {
			continue
		}
		if *replay != "" && ch.Name != rf.Scenario {
			continue
		}
		c := &Ctx{name: ch.Name, distinct: map[string]struct{}{}, viol: map[string]*Violation{}, deadline: dl, Tier: *tier}
		ch.Run(c)
		rep.Scenarios = append(rep.Scenarios, Stats{Name: ch.Name, Family: ch.Family, Evaluations: c.evals, Distinct: c.dcount, Samples: c.samples, Exhaustive: !c.hit})
		for _, v := range c.viol {
			rep.Violations = append(rep.Violations, *v)
		}
		if c.hit {
			rep.DeadlineHit = true
		}
		rep.Notes = append(rep.Notes, c.notes...)
	}
	rep.WallS = time.Since(start).Seconds()
	if *replay != "" {
		for _, v := range rep.Violations {
			if v.Rule == rf.Rule {
				ib, _ := json.Marshal(v.Input)
				fmt.Printf("FAIL rule=%s %s\n  first failing input now: %s\n  recorded input: %s\n", v.Rule, v.Detail, ib, rf.Input)
				fmt.Printf("VIOLATION property=%s replay=%s\n", rf.Property, *replay)
				os.Exit(1)
			}
		}
		fmt.Println("replay: rule", rf.Rule, "not violated on this tree")
		return
	}
	b, _ := json.MarshalIndent(rep, "", " ")
	if *out == "" {
		os.Stdout.Write(b)
		fmt.Println()
	} else if err := os.WriteFile(*out, b, 0o644); err != nil {
		fmt.Fprintln(os.Stderr, err)
		os.Exit(2)
	}
}
