// Package vsync replaces "sync" in instrumented packages. All types are plain data: only
// the baton holder runs, so nothing here blocks for real; waiting is vrt.Block.
package vsync

import (
	"unsafe"

	"github.com/kercylan98/vivid/internal/verif/vrt"
)

type Mutex struct {
	locked bool
}

func (m *Mutex) addr() uintptr { return uintptr(unsafe.Pointer(m)) }

func (m *Mutex) Lock() {
	if !vrt.Active() {
		m.locked = true
		return
	}
	vrt.Block(vrt.KLock, m.addr(), "Mutex.Lock", func() bool { return !m.locked })
	m.locked = true
	vrt.Shadow(m.addr(), 0, 1)
	vrt.Acquire(m.addr())
}

func (m *Mutex) TryLock() bool {
	if !vrt.Active() {
		if m.locked {
			return false
		}
		m.locked = true
		return true
	}
	vrt.Point(vrt.KLock, m.addr())
	if m.locked {
		return false
	}
	m.locked = true
	vrt.Shadow(m.addr(), 0, 1)
	vrt.Acquire(m.addr())
	return true
}

func (m *Mutex) Unlock() {
	if !vrt.Active() {
		m.locked = false
		return
	}
	vrt.Point(vrt.KLock, m.addr())
	if !m.locked {
		panic("sync: unlock of unlocked mutex")
	}
	vrt.Release(m.addr())
	m.locked = false
	vrt.Shadow(m.addr(), 1, 0)
}

type RWMutex struct {
	writer  bool
	readers int
}

func (m *RWMutex) addr() uintptr { return uintptr(unsafe.Pointer(m)) }

func (m *RWMutex) Lock() {
	if !vrt.Active() {
		m.writer = true
		return
	}
	vrt.Block(vrt.KLock, m.addr(), "RWMutex.Lock", func() bool { return !m.writer && m.readers == 0 })
	m.writer = true
	vrt.Shadow(m.addr(), 0, 1)
	vrt.Acquire(m.addr())
	vrt.Acquire(m.addr() + 1)
}

func (m *RWMutex) Unlock() {
	if !vrt.Active() {
		m.writer = false
		return
	}
	vrt.Point(vrt.KLock, m.addr())
	if !m.writer {
		panic("sync: Unlock of unlocked RWMutex")
	}
	vrt.Release(m.addr())
	m.writer = false
	vrt.Shadow(m.addr(), 1, 0)
}

func (m *RWMutex) RLock() {
	if !vrt.Active() {
		m.readers++
		return
	}
	vrt.Block(vrt.KLock, m.addr(), "RWMutex.RLock", func() bool { return !m.writer })
	vrt.Shadow(m.addr()+1, uint64(m.readers), uint64(m.readers+1))
	m.readers++
	vrt.Acquire(m.addr()) // readers are ordered after the last writer, not after each other
}

func (m *RWMutex) RUnlock() {
	if !vrt.Active() {
		m.readers--
		return
	}
	vrt.Point(vrt.KLock, m.addr())
	if m.readers <= 0 {
		panic("sync: RUnlock of unlocked RWMutex")
	}
	vrt.ReleaseMerge(m.addr() + 1) // the next writer is ordered after every reader
	vrt.Shadow(m.addr()+1, uint64(m.readers), uint64(m.readers-1))
	m.readers--
}

func (m *RWMutex) TryLock() bool {
	if vrt.Active() {
		vrt.Point(vrt.KLock, m.addr())
	}
	if m.writer || m.readers > 0 {
		return false
	}
	m.writer = true
	vrt.Shadow(m.addr(), 0, 1)
	vrt.Acquire(m.addr())
	vrt.Acquire(m.addr() + 1)
	return true
}

func (m *RWMutex) TryRLock() bool {
	if vrt.Active() {
		vrt.Point(vrt.KLock, m.addr())
	}
	if m.writer {
		return false
	}
	vrt.Shadow(m.addr()+1, uint64(m.readers), uint64(m.readers+1))
	m.readers++
	vrt.Acquire(m.addr())
	return true
}

type rlocker RWMutex

func (r *rlocker) Lock()   { (*RWMutex)(r).RLock() }
func (r *rlocker) Unlock() { (*RWMutex)(r).RUnlock() }

func (m *RWMutex) RLocker() Locker { return (*rlocker)(m) }

type WaitGroup struct {
	n int
}

func (w *WaitGroup) addr() uintptr { return uintptr(unsafe.Pointer(w)) }

func (w *WaitGroup) Add(delta int) {
	if vrt.Active() {
		vrt.Point(vrt.KLock, w.addr())
		vrt.Shadow(w.addr(), uint64(w.n), uint64(w.n+delta))
		if delta < 0 {
			vrt.ReleaseMerge(w.addr())
		}
	}
	w.n += delta
	if w.n < 0 {
		panic("sync: negative WaitGroup counter")
	}
}

func (w *WaitGroup) Done() { w.Add(-1) }

func (w *WaitGroup) Wait() {
	if !vrt.Active() {
		return
	}
	vrt.Block(vrt.KLock, w.addr(), "WaitGroup.Wait", func() bool { return w.n == 0 })
	vrt.Acquire(w.addr())
}

func (w *WaitGroup) Go(f func()) {
	w.Add(1)
	vrt.Go("wg", func() {
		defer w.Done()
		f()
	})
}

type Once struct {
	done    bool
	running bool
}

func (o *Once) Do(f func()) {
	a := uintptr(unsafe.Pointer(o))
	if vrt.Active() {
		vrt.Block(vrt.KLock, a, "Once.Do", func() bool { return !o.running })
		vrt.Acquire(a)
	}
	if o.done {
		return
	}
	o.running = true
	defer func() {
		o.done = true
		o.running = false
		if vrt.Active() {
			vrt.Release(a)
		}
	}()
	f()
}

// Map is sync.Map as a plain ordered map.
type Map struct {
	m    map[any]any
	keys []any
	ver  uint64
}

func (m *Map) addr() uintptr { return uintptr(unsafe.Pointer(m)) }

func (m *Map) pt() {
	if vrt.Active() {
		vrt.Point(vrt.KLock, m.addr())
		vrt.Acquire(m.addr())
	}
}

func (m *Map) changed() {
	if vrt.Active() {
		vrt.Shadow(m.addr(), m.ver, m.ver+1)
		vrt.ReleaseMerge(m.addr())
	}
	m.ver++
}

func (m *Map) Load(key any) (value any, ok bool) {
	m.pt()
	value, ok = m.m[key]
	return
}

func (m *Map) set(key, value any) {
	if m.m == nil {
		m.m = make(map[any]any)
	}
	if _, ok := m.m[key]; !ok {
		m.keys = append(m.keys, key)
	}
	m.m[key] = value
	m.changed()
}

func (m *Map) del(key any) {
	if _, ok := m.m[key]; !ok {
		return
	}
	delete(m.m, key)
	for i, k := range m.keys {
		if k == key {
			m.keys = append(m.keys[:i:i], m.keys[i+1:]...)
			break
		}
	}
	m.changed()
}

func (m *Map) Store(key, value any) {
	m.pt()
	m.set(key, value)
}

func (m *Map) Clear() {
	m.pt()
	m.m = nil
	m.keys = nil
	m.changed()
}

func (m *Map) LoadOrStore(key, value any) (actual any, loaded bool) {
	m.pt()
	if v, ok := m.m[key]; ok {
		return v, true
	}
	m.set(key, value)
	return value, false
}

func (m *Map) LoadAndDelete(key any) (value any, loaded bool) {
	m.pt()
	value, loaded = m.m[key]
	if loaded {
		m.del(key)
	}
	return
}

func (m *Map) Delete(key any) {
	m.pt()
	m.del(key)
}

func (m *Map) Swap(key, value any) (previous any, loaded bool) {
	m.pt()
	previous, loaded = m.m[key]
	m.set(key, value)
	return
}

func (m *Map) CompareAndSwap(key, old, new any) (swapped bool) {
	m.pt()
	if v, ok := m.m[key]; ok && v == old {
		m.set(key, new)
		return true
	}
	return false
}

func (m *Map) CompareAndDelete(key, old any) (deleted bool) {
	m.pt()
	if v, ok := m.m[key]; ok && v == old {
		m.del(key)
		return true
	}
	return false
}

// Range visits a snapshot of the keys in insertion order (one legal behaviour of sync.Map).
func (m *Map) Range(f func(key, value any) bool) {
	m.pt()
	keys := append([]any(nil), m.keys...)
	for _, k := range keys {
		v, ok := m.m[k]
		if !ok {
			continue
		}
		if !f(k, v) {
			break
		}
	}
}

// VerifSnapshot returns keys and values in insertion order without a scheduling point.
func (m *Map) VerifSnapshot() (keys []any, vals []any) {
	for _, k := range m.keys {
		if v, ok := m.m[k]; ok {
			keys = append(keys, k)
			vals = append(vals, v)
		}
	}
	return
}

// Pool is sync.Pool as a deterministic LIFO with a Put -> Get happens-before edge.
type Pool struct {
	New   func() any
	items []any
}

func (p *Pool) Get() any {
	if vrt.Active() {
		vrt.Acquire(uintptr(unsafe.Pointer(p)))
	}
	if n := len(p.items); n > 0 {
		x := p.items[n-1]
		p.items = p.items[:n-1]
		return x
	}
	if p.New != nil {
		return p.New()
	}
	return nil
}

func (p *Pool) Put(x any) {
	if x == nil {
		return
	}
	if vrt.Active() {
		vrt.ReleaseMerge(uintptr(unsafe.Pointer(p)))
	}
	if len(p.items) < 64 {
		p.items = append(p.items, x)
	}
}
