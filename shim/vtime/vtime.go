// Package vtime replaces "time" in instrumented packages: a virtual clock that advances
// only when the scheduler fires the earliest pending timer. Everything not overridden
// here is re-exported from the real package by alias (aliases_gen.go), so time.Duration,
// time.Time ... remain the very same types as in un-instrumented code.
package vtime

import (
	"time"

	"github.com/kercylan98/vivid/internal/verif/vrt"
)

// Manual is the clock used outside a controlled execution (plain enumeration harnesses).
var Manual int64

func Now() time.Time {
	if vrt.Active() {
		return time.Unix(0, vrt.BaseUnixNano+vrt.Now())
	}
	return time.Unix(0, vrt.BaseUnixNano+Manual)
}

func Since(t time.Time) time.Duration { return Now().Sub(t) }
func Until(t time.Time) time.Duration { return t.Sub(Now()) }

func Sleep(d time.Duration) {
	if !vrt.Active() {
		Manual += int64(d)
		return
	}
	if d <= 0 {
		vrt.Point(vrt.KTime, 0)
		return
	}
	fired := false
	vrt.AddTimer(int64(d), "Sleep", func() { fired = true })
	vrt.Block(vrt.KTime, 0, "time.Sleep", func() bool { return fired })
}

func After(d time.Duration) <-chan time.Time {
	return NewTimer(d).C
}

type Timer struct {
	C      <-chan time.Time
	c      chan time.Time
	f      func()
	cancel func() bool
}

func (t *Timer) arm(d time.Duration) {
	if t.f != nil {
		f := t.f
		t.cancel = vrt.AddTimer(int64(d), "AfterFunc", func() { vrt.Spawn("timerfn", f) })
	} else {
		c := t.c
		t.cancel = vrt.AddTimer(int64(d), "Timer", func() {
			vrt.ReleaseMerge(vrt.ChanAddr(c))
			select {
			case c <- Now():
			default:
			}
		})
	}
}

func NewTimer(d time.Duration) *Timer {
	c := make(chan time.Time, 1)
	t := &Timer{C: c, c: c}
	if vrt.Active() {
		vrt.Point(vrt.KTime, 0)
	}
	t.arm(d)
	return t
}

func AfterFunc(d time.Duration, f func()) *Timer {
	t := &Timer{f: f}
	t.arm(d)
	if vrt.Active() {
		// the scheduling point comes after arming: the timer may fire before the caller continues
		vrt.Point(vrt.KTime, 0)
	}
	return t
}

func (t *Timer) Stop() bool {
	if vrt.Active() {
		vrt.Point(vrt.KTime, 0)
	}
	if t.cancel == nil {
		return false
	}
	return t.cancel()
}

func (t *Timer) Reset(d time.Duration) bool {
	if vrt.Active() {
		vrt.Point(vrt.KTime, 0)
	}
	was := false
	if t.cancel != nil {
		was = t.cancel()
	}
	if t.c != nil {
		// Go 1.23+ semantics: a Reset timer's channel holds no stale value
		select {
		case <-t.c:
		default:
		}
	}
	t.arm(d)
	return was
}

type Ticker struct {
	C      <-chan time.Time
	c      chan time.Time
	d      time.Duration
	cancel func() bool
}

func (t *Ticker) arm() {
	t.cancel = vrt.AddTimer(int64(t.d), "Ticker", func() {
		vrt.ReleaseMerge(vrt.ChanAddr(t.c))
		select {
		case t.c <- Now():
		default:
		}
		t.arm()
	})
}

func NewTicker(d time.Duration) *Ticker {
	if d <= 0 {
		panic("non-positive interval for NewTicker")
	}
	c := make(chan time.Time, 1)
	t := &Ticker{C: c, c: c, d: d}
	t.arm()
	return t
}

func (t *Ticker) Stop() {
	if t.cancel != nil {
		t.cancel()
	}
}

func (t *Ticker) Reset(d time.Duration) {
	t.Stop()
	t.d = d
	t.arm()
}

func Tick(d time.Duration) <-chan time.Time {
	if d <= 0 {
		return nil
	}
	return NewTicker(d).C
}
