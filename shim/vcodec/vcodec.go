// Package vcodec holds what the codec harnesses (c12, c13) share: the corpus of values of
// every registered wire type, the canonical projection used to compare a value with its
// decoding, and a small user Codec.
package vcodec

import (
	"bytes"
	"errors"
	"fmt"
	"math"
	"reflect"
	"sort"
	"strings"
	"time"

	"github.com/kercylan98/vivid"
	"github.com/kercylan98/vivid/internal/actor"
	"github.com/kercylan98/vivid/internal/cluster"
	"github.com/kercylan98/vivid/internal/messages"
)

// UserMsg is a message type unknown to the registry: it travels through the user Codec.
type UserMsg struct {
	A int64
	S string
}

// CustomMsg is registered by the user through vivid.RegisterCustomMessage.
type CustomMsg struct {
	N int32
	T string
}

// ShortTagMsg is a registered message whose writer rejects some values: the tag travels as a short
// string (1-byte length), so a tag longer than 255 bytes makes the encode fail - legitimately, and for
// that one message only.
type ShortTagMsg struct {
	Tag string
}

// BytesMsg carries a raw byte payload: a decoder that hands out sub-slices of a reused read buffer
// instead of copies would let a later frame overwrite it.
type BytesMsg struct {
	ID string
	B  []byte
}

// PadTagMsg writes a raw padding first and a short-string tag last: with a long tag the writer has already grown by
// the size of the padding when the encode fails.
type PadTagMsg struct {
	Pad []byte
	Tag string
}

// UnreadableMsg encodes fine and is rejected by its reader: the receiving side cannot decode it (as with a version skew).
type UnreadableMsg struct{ N int32 }

func init() {
	vivid.RegisterCustomMessage[*UnreadableMsg]("verifUnreadableMsg",
		func(message any, r *messages.Reader, codec messages.Codec) error {
			var n int32
			if err := r.ReadInto(&n); err != nil {
				return err
			}
			return errors.New("verifUnreadableMsg: this side cannot decode it")
		},
		func(message any, w *messages.Writer, codec messages.Codec) error {
			return w.WriteFrom(message.(*UnreadableMsg).N)
		})
}

// Unreadable lists registry names whose reader rejects every input by design (excluded from round-trip expectations).
var Unreadable = map[string]bool{"verifUnreadableMsg": true}

// EmptyMsg is a registered message without fields: its wire body is empty.
type EmptyMsg struct{}

func init() {
	vivid.RegisterCustomMessage[*EmptyMsg]("verifEmptyMsg",
		func(message any, r *messages.Reader, codec messages.Codec) error { return nil },
		func(message any, w *messages.Writer, codec messages.Codec) error { return nil })
	vivid.RegisterCustomMessage[*PadTagMsg]("verifPadTagMsg",
		func(message any, r *messages.Reader, codec messages.Codec) error {
			m := message.(*PadTagMsg)
			if err := r.ReadInto(&m.Pad); err != nil {
				return err
			}
			t, err := r.ReadShortString()
			m.Tag = t
			return err
		},
		func(message any, w *messages.Writer, codec messages.Codec) error {
			m := message.(*PadTagMsg)
			if err := w.WriteFrom(m.Pad); err != nil {
				return err
			}
			return w.WriteShortString(m.Tag).Err()
		})
	vivid.RegisterCustomMessage[*BytesMsg]("verifBytesMsg",
		func(message any, r *messages.Reader, codec messages.Codec) error {
			m := message.(*BytesMsg)
			return r.ReadInto(&m.ID, &m.B)
		},
		func(message any, w *messages.Writer, codec messages.Codec) error {
			m := message.(*BytesMsg)
			return w.WriteFrom(m.ID, m.B)
		})
	vivid.RegisterCustomMessage[*ShortTagMsg]("verifShortTagMsg",
		func(message any, r *messages.Reader, codec messages.Codec) error {
			m := message.(*ShortTagMsg)
			t, err := r.ReadShortString()
			m.Tag = t
			return err
		},
		func(message any, w *messages.Writer, codec messages.Codec) error {
			return w.WriteShortString(message.(*ShortTagMsg).Tag).Err()
		})
	vivid.RegisterCustomMessage[*CustomMsg]("verifCustomMsg",
		func(message any, r *messages.Reader, codec messages.Codec) error {
			m := message.(*CustomMsg)
			return r.ReadInto(&m.N, &m.T)
		},
		func(message any, w *messages.Writer, codec messages.Codec) error {
			m := message.(*CustomMsg)
			return w.WriteFrom(m.N, m.T)
		})
}

// UserCodec encodes *UserMsg as "A|S".
type UserCodec struct{}

func (UserCodec) Encode(m vivid.Message) ([]byte, error) {
	u, ok := m.(*UserMsg)
	if !ok || u == nil {
		return nil, fmt.Errorf("user codec: unsupported %T", m)
	}
	return []byte(fmt.Sprintf("%d|%s", u.A, u.S)), nil
}

func (UserCodec) Decode(b []byte) (vivid.Message, error) {
	s := string(b)
	i := strings.IndexByte(s, '|')
	if i < 0 {
		return nil, errors.New("user codec: bad payload")
	}
	var a int64
	if _, err := fmt.Sscanf(s[:i], "%d", &a); err != nil {
		return nil, err
	}
	return &UserMsg{A: a, S: s[i+1:]}, nil
}

func ref(addr, path string) vivid.ActorRef {
	r, err := actor.NewRef(addr, path)
	if err != nil {
		panic(err)
	}
	return r
}

var (
	Strings = []string{"", "a", strings.Repeat("x", 300), "héllo✓"}
	Int32s  = []int32{0, 1, -1, math.MinInt32, math.MaxInt32}
	Int64s  = []int64{0, 1, -1, math.MinInt64, math.MaxInt64}
	Times   = []time.Time{time.Unix(0, 0), time.Unix(1_800_000_000, 123), time.Unix(0, math.MaxInt64)}
)

func Refs() []vivid.ActorRef {
	return []vivid.ActorRef{nil, ref("localhost", "/a/b"), ref("10.0.0.7:8080", "/user/x"), ref("localhost", "/a/@future@1234"), ref("10.0.0.7:8080", "/")}
}

func Errors() []error {
	return []error{nil, vivid.ErrorFutureTimeout, vivid.ErrorActorDeaded.WithMessage("custom text"), errors.New("foreign error"), fmt.Errorf("wrapped: %w", vivid.ErrorNotFound)}
}

func Maps() []map[string]string {
	return []map[string]string{nil, {}, {"k1": "v1", "k2": ""}}
}

func NestedMessages() []any {
	return append(nestedMessages(), &EmptyMsg{})
}

func nestedMessages() []any {
	return []any{new(vivid.OnLaunch), &CustomMsg{N: 7, T: "t"}, &UserMsg{A: -5, S: "user|payload"}, &vivid.PipeResult{Id: "inner", Message: new(vivid.OnLaunch), Error: vivid.ErrorNotFound}, &messages.PingMessage{Time: time.Unix(5, 5)}}
}

func NodeStates() []*cluster.NodeState {
	var out []*cluster.NodeState
	out = append(out, nil)
	for i, md := range Maps() {
		n := cluster.VerifNewNodeState(fmt.Sprintf("n%d", i), "cluster", fmt.Sprintf("10.0.0.%d:1", i))
		n.Generation = []int{1, 2, math.MaxInt32}[i%3]
		n.Timestamp = Int64s[i%len(Int64s)]
		n.SeqNo = uint64(i) * 1 << 40
		n.Status = cluster.MemberStatus(i % 8)
		n.Unreachable = i%2 == 1
		n.LastSeen = Int64s[(i+2)%len(Int64s)]
		n.LogicalClock = []uint64{0, 1, math.MaxUint64}[i%3]
		n.Metadata = md
		n.Labels = Maps()[(i+1)%3]
		n.Checksum = uint32(i) * 77
		out = append(out, n)
	}
	return out
}

func Views() []*cluster.ClusterView {
	var out []*cluster.ClusterView
	out = append(out, nil)
	empty := cluster.VerifNewView()
	empty.ViewID = ""
	empty.Timestamp = 0
	out = append(out, empty)
	ns := NodeStates()
	v := cluster.VerifNewView()
	v.ViewID = "view-1"
	v.Epoch = math.MaxInt64
	v.Timestamp = -1
	v.Members[ns[1].ID] = ns[1]
	v.Members[ns[2].ID] = ns[2]
	v.HealthyCount, v.UnhealthyCount, v.QuorumSize = 1, 1, 2
	v.VersionVector = cluster.VerifVV(map[string]uint64{"n0": 1, "n1": cluster.VerifMaxCounter, "z": 0}, false)
	v.ProtocolVersion = math.MaxUint16
	v.MaxVersionVectorEntries = 7
	out = append(out, v)
	w := cluster.VerifNewView()
	w.ViewID = "héllo"
	w.Members[ns[3].ID] = ns[3]
	w.VersionVector = cluster.VerifVV(nil, true)
	out = append(out, w)
	return out
}

// Corpus returns, per registered wire name, the values to round-trip. A name without an entry is
// a harness error (a newly registered type cannot be skipped silently).
func Corpus() map[string][]any {
	c := map[string][]any{}
	c["OnLaunch"] = []any{new(vivid.OnLaunch)}
	for _, k := range Refs() {
		for _, s := range Strings[:2] {
			for _, p := range []bool{false, true} {
				c["OnKill"] = append(c["OnKill"], &vivid.OnKill{Killer: k, Reason: s, Poison: p})
			}
		}
		c["OnKilled"] = append(c["OnKilled"], &vivid.OnKilled{Ref: k})
	}
	for _, s := range Strings {
		c["OnKill"] = append(c["OnKill"], &vivid.OnKill{Killer: Refs()[1], Reason: s})
	}
	for _, t1 := range Times {
		for _, t2 := range Times {
			c["Pong"] = append(c["Pong"], &vivid.Pong{PingTime: t1, RespondTime: t2})
			c["PongMessage"] = append(c["PongMessage"], &messages.PongMessage{Ping: &messages.PingMessage{Time: t1}, RespondTime: t2})
		}
		c["PingMessage"] = append(c["PingMessage"], &messages.PingMessage{Time: t1})
	}
	for _, id := range Strings {
		for _, m := range NestedMessages() {
			for _, e := range Errors() {
				c["PipeResult"] = append(c["PipeResult"], &vivid.PipeResult{Id: id, Message: m, Error: e})
			}
		}
	}
	for _, s := range Strings {
		for _, m := range NestedMessages() {
			c["SchedulerMessage"] = append(c["SchedulerMessage"], &actor.SchedulerMessage{Reference: s, Message: m})
		}
	}
	for _, e := range []*vivid.Error{vivid.ErrorNotFound, vivid.ErrorFutureTimeout.WithMessage(""), vivid.ErrorActorDeaded.WithMessage(Strings[2]), vivid.ErrorException.With(errors.New("x"))} {
		c["Error"] = append(c["Error"], e)
	}
	c["NoneArgsCommandMessage"] = []any{messages.CommandPauseMailbox.Build(), messages.CommandResumeMailbox.Build(), &messages.NoneArgsCommandMessage{Command: 255}}
	c["WatchMessage"] = []any{new(messages.WatchMessage)}
	c["UnwatchMessage"] = []any{new(messages.UnwatchMessage)}
	c["clusterExitingReady"] = []any{new(cluster.ExitingReady)}
	c["clusterFailureDetectionTick"] = []any{new(cluster.FailureDetectionTick)}
	c["clusterGetViewRequest"] = []any{new(cluster.GetViewRequest)}
	c["clusterGossipCrossDCTick"] = []any{new(cluster.GossipCrossDCTick)}
	c["clusterGossipTick"] = []any{new(cluster.GossipTick)}
	c["clusterLeaveAck"] = []any{new(cluster.LeaveAck)}
	c["clusterLeaveRequest"] = []any{new(cluster.LeaveRequest)}
	for _, a := range Strings {
		for _, b := range Strings {
			c["clusterForceMemberDown"] = append(c["clusterForceMemberDown"], &cluster.ForceMemberDown{NodeID: a, AdminToken: b})
		}
		c["clusterTriggerViewBroadcast"] = append(c["clusterTriggerViewBroadcast"], &cluster.TriggerViewBroadcast{AdminToken: a})
	}
	for _, v := range Views() {
		c["clusterGossip"] = append(c["clusterGossip"], &cluster.GossipMessage{View: v})
		c["clusterJoinResponse"] = append(c["clusterJoinResponse"], &cluster.JoinResponse{View: v})
		for _, q := range []bool{false, true} {
			for _, l := range Strings[:2] {
				c["clusterGetViewResponse"] = append(c["clusterGetViewResponse"], &cluster.GetViewResponse{View: v, InQuorum: q, LeaderAddr: l})
			}
		}
	}
	for _, n := range NodeStates() {
		for _, tok := range Strings[:2] {
			c["clusterJoinRequest"] = append(c["clusterJoinRequest"], &cluster.JoinRequest{NodeState: n, AuthToken: tok})
		}
	}
	for _, d := range []time.Duration{0, time.Second, -1, math.MaxInt64, math.MinInt64} {
		c["clusterJoinRetryTick"] = append(c["clusterJoinRetryTick"], &cluster.JoinRetryTick{NextDelay: d})
	}
	for _, r := range []int{0, 1, -1, math.MaxInt32, math.MinInt32} {
		c["clusterLeaveBroadcastRound"] = append(c["clusterLeaveBroadcastRound"], &cluster.LeaveBroadcastRound{Round: r})
	}
	for _, s := range Refs() {
		for _, m := range NestedMessages() {
			c["clusterSingletonForwardedMessage"] = append(c["clusterSingletonForwardedMessage"], cluster.VerifSingletonForwarded(s, m, "", ""))
		}
	}
	c["clusterSingletonForwardedMessage"] = append(c["clusterSingletonForwardedMessage"], cluster.VerifSingletonForwarded(nil, new(vivid.OnLaunch), "1.2.3.4:5", "/p"))
	c["verifCustomMsg"] = []any{&CustomMsg{}, &CustomMsg{N: math.MinInt32, T: Strings[3]}}
	c["verifBytesMsg"] = []any{&BytesMsg{}, &BytesMsg{ID: "b", B: []byte{0, 1, 2, 255}}, &BytesMsg{ID: Strings[3], B: bytes.Repeat([]byte{7}, 5000)}}
	c["verifEmptyMsg"] = []any{&EmptyMsg{}}
	c["verifUnreadableMsg"] = []any{&UnreadableMsg{N: 1}}
	c["verifPadTagMsg"] = []any{&PadTagMsg{}, &PadTagMsg{Pad: []byte{1, 2}, Tag: "t"}, &PadTagMsg{Pad: bytes.Repeat([]byte{3}, 70000), Tag: strings.Repeat("T", 255)}}
	c["verifShortTagMsg"] = []any{&ShortTagMsg{}, &ShortTagMsg{Tag: "t"}, &ShortTagMsg{Tag: strings.Repeat("T", 255)}}
	return c
}

// Canon projects a message onto the properties that must survive the wire: nil and empty
// containers are identified, times compare by UnixNano, errors by code and message, references
// by address and path.
func Canon(v any) string {
	var b strings.Builder
	canon(&b, reflect.ValueOf(v), 0)
	return b.String()
}

func canonRef(b *strings.Builder, r vivid.ActorRef) {
	if r == nil || (reflect.ValueOf(r).Kind() == reflect.Ptr && reflect.ValueOf(r).IsNil()) {
		b.WriteString("ref<nil>")
		return
	}
	fmt.Fprintf(b, "ref<%s|%s>", r.GetAddress(), r.GetPath())
}

func canonErr(b *strings.Builder, e error) {
	if e == nil {
		b.WriteString("err<nil>")
		return
	}
	var ve *vivid.Error
	if errors.As(e, &ve) {
		if _, direct := e.(*vivid.Error); direct {
			fmt.Fprintf(b, "err<%d|%s>", ve.GetCode(), ve.GetMessage())
			return
		}
	}
	// foreign errors travel as ErrorException carrying the text
	x := vivid.ErrorException.With(e)
	fmt.Fprintf(b, "err<%d|%s>", x.GetCode(), x.GetMessage())
}

func canon(b *strings.Builder, v reflect.Value, depth int) {
	if !v.IsValid() {
		b.WriteString("<invalid>")
		return
	}
	if depth > 8 {
		b.WriteString("...")
		return
	}
	switch x := v.Interface().(type) {
	case time.Time:
		fmt.Fprintf(b, "t%d", x.UnixNano())
		return
	case vivid.ActorRef:
		canonRef(b, x)
		return
	case *vivid.Error:
		canonErr(b, x)
		return
	case cluster.VersionVector:
		fmt.Fprintf(b, "vv%v", x.SortedEntries())
		return
	}
	t := v.Type()
	if t.Implements(reflect.TypeOf((*error)(nil)).Elem()) && v.Kind() == reflect.Interface {
		if v.IsNil() {
			canonErr(b, nil)
		} else {
			canonErr(b, v.Interface().(error))
		}
		return
	}
	if t == reflect.TypeOf((*vivid.ActorRef)(nil)).Elem() {
		if v.IsNil() {
			canonRef(b, nil)
		} else {
			canonRef(b, v.Interface().(vivid.ActorRef))
		}
		return
	}
	switch v.Kind() {
	case reflect.Ptr, reflect.Interface:
		if v.IsNil() {
			b.WriteString("nil")
			return
		}
		if v.Kind() == reflect.Interface {
			fmt.Fprintf(b, "(%s)", v.Elem().Type())
		}
		canon(b, v.Elem(), depth+1)
	case reflect.Struct:
		fmt.Fprintf(b, "%s{", t.Name())
		for i := 0; i < v.NumField(); i++ {
			f := t.Field(i)
			if f.PkgPath != "" {
				// unexported: reachable only through accessors; handled by the type-specific cases above / below
				continue
			}
			fmt.Fprintf(b, "%s:", f.Name)
			canon(b, v.Field(i), depth+1)
			b.WriteString(",")
		}
		b.WriteString("}")
	case reflect.Map:
		if v.Len() == 0 {
			b.WriteString("map[]")
			return
		}
		keys := v.MapKeys()
		sort.Slice(keys, func(i, j int) bool { return fmt.Sprint(keys[i]) < fmt.Sprint(keys[j]) })
		b.WriteString("map[")
		for _, k := range keys {
			fmt.Fprintf(b, "%v:", k)
			canon(b, v.MapIndex(k), depth+1)
			b.WriteString(",")
		}
		b.WriteString("]")
	case reflect.Slice:
		if v.Len() == 0 {
			b.WriteString("[]")
			return
		}
		b.WriteString("[")
		for i := 0; i < v.Len(); i++ {
			canon(b, v.Index(i), depth+1)
			b.WriteString(",")
		}
		b.WriteString("]")
	default:
		fmt.Fprintf(b, "%v", v.Interface())
	}
}

// CanonMessage is Canon plus the type-specific projections for types with unexported fields.
func CanonMessage(name string, m any) string {
	switch name {
	case "clusterSingletonForwardedMessage":
		s, msg, addr, path := cluster.VerifSingletonForwardedDump(m)
		if s != nil {
			addr, path = s.GetAddress(), s.GetPath()
		}
		return fmt.Sprintf("fwd{%s|%s|%s}", addr, path, Canon(msg))
	case "Error":
		var b strings.Builder
		canonErr(&b, m.(*vivid.Error))
		return b.String()
	}
	return Canon(m)
}
