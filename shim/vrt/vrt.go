// Package vrt is the controlled, cooperative scheduler ("vsched") under which the
// instrumented vivid code runs. Exactly one thread (goroutine created through Go) holds
// the baton at any time; every shim operation (vsync / vatomic / vtime / channel helper)
// is a scheduling point at which the baton may be handed to another thread, as decided by
// the choice sequence being replayed / extended by the explorer (package vexp).
//
// Nothing in here uses the wall clock or randomness: the same choice sequence reproduces
// the same execution.
package vrt

import (
	"fmt"
	"runtime"
	"runtime/debug"
	"sort"
	"strings"
	"sync"
)

// Kind classifies scheduling points.
type Kind uint8

const (
	KAtomic Kind = iota // atomic load/store/rmw
	KLock               // mutex / rwmutex / waitgroup / sync.Map operation
	KChan               // channel operation
	KSpawn              // go statement
	KTime               // time call
	KYield              // explicit yield of a harness body
	KEnter              // entry tap configured as a switch point (e.g. HandleEnvelop)
	KNet                // virtual network operation
	KExit               // thread exit (internal)
	KBlock              // thread became blocked (internal)
	KChoose             // environment choice (internal)
	KAccess             // plain read/write of an instrumented location (only with AccessPoints)
)

// Cost models for alternatives.
const (
	CostPreempt = 0 // an alternative costs 1 iff the running thread was still enabled (CHESS)
	CostDelay   = 1 // the i-th candidate in round-robin order costs i (delay bounding)
)

// Config selects the granularity and the budgets of one execution.
type Config struct {
	Coarse        bool  // switch only at KYield/KEnter/KChoose and when the running thread blocks or exits
	Cost          int   // CostPreempt or CostDelay
	TimerRace     bool  // offer "fire the earliest timer now" as an alternative while threads are enabled
	StepBudget    int   // scheduling points per execution before it is declared runaway (0 = 200000)
	SpinLimit     int   // identical (op,object,shadow-state) observations by one thread with nobody else stepping (0 = 64)
	Horizon       int64 // virtual nanoseconds after which pending timers are no longer fired (0 = no limit)
	SwitchOnTime  bool  // coarse mode: time operations (arming / stopping timers) are switch points
	SwitchOnNet   bool  // coarse mode: virtual network operations (Dial, Write, Close) are switch points
	SwitchOnSpawn bool  // coarse mode: a go statement is a switch point too (the new thread may run before its creator continues)
	FreeAtExit    bool  // in CostDelay mode, make the choice after a thread exit/block free (cost 0 for every alternative)
	// FinePkgs: coarse mode: lock / atomic operations executed by code whose function name contains one of
	// these strings (package paths) are switch points as well - fine granularity for one package, message
	// granularity for the rest.
	FinePkgs []string
}

// PointInfo describes one recorded decision.
type PointInfo struct {
	N          int   // number of options
	Chosen     int   // option taken
	CurEnabled bool  // the running thread was among the options (it is option 0 then)
	Env        bool  // environment choice (Choose) rather than a thread choice
	Kind       Kind  // kind of the scheduling point
	Tids       []int // thread ids of the options (nil for Env); -1 = fire timer
	Label      string
	Frozen     bool // recorded after Freeze(): the explorer does not branch here
}

// SpinReport describes a detected busy-wait.
type SpinReport struct {
	Thread string
	Op     string
	Stack  string
	// AtQuiescence: the thread was still busy-waiting when nothing else in the system could
	// run any more (so, without new external input, it would spin forever). A spin that ends
	// because another thread completes an in-flight operation is reported with false.
	AtQuiescence bool
	tid          int
}

// Result is what one execution produced (besides what the harness body recorded itself).
type Result struct {
	Points     []PointInfo
	Steps      int
	Blocked    []string // names + wait reasons of threads still blocked when the execution ended
	Spins      []SpinReport
	Runaway    bool
	Panic      string // uncaught panic in some thread ("" if none)
	ReplayErr  string // the prefix could not be followed (nondeterminism): harness error
	VNow       int64
	MaxThreads int
	Races      []RaceReport
}

type thread struct {
	id      int
	name    string
	wake    chan struct{}
	pred    func() bool // non-nil while blocked
	why     string
	done    bool
	tag     string // harness label, inherited by the threads and timers this thread creates (see SetTag)
	quiesce bool   // blocked in Quiesce()
	daemon  bool   // not reported in Result.Blocked
	exited  chan struct{}
	// spin detection
	spinSeen map[spinKey]int
	spinPark bool
	spinH    uint64
	lastOp   string
}

type spinKey struct {
	kind Kind
	obj  uintptr
	h    uint64
}

type timer struct {
	token    vclock
	tokenTid int
	when     int64
	seq      int
	fire     func() // runs on the scheduler's behalf (baton held); must not block
	name     string
	tag      string // tag of the thread (or timer) that armed it
	dead     bool
}

type exec struct {
	cfg           Config
	prefix        []int
	threads       []*thread
	cur           *thread
	res           *Result
	aborting      bool
	frozen        bool
	finished      bool
	doneCh        chan struct{}
	now           int64
	timers        []*timer
	tseq          int
	shadowH       uint64
	lastStep      *thread // last thread that executed a point (for spin bookkeeping)
	stepNo        int
	enterSw       map[string]bool
	taps          map[string][]func(args ...any)
	live          sync.WaitGroup
	resetFns      []func()
	noTimers      bool
	hb            *hbState
	accessPoints  bool
	hbOverride    *vclock
	hbOverrideTid int
	tagOverride   *string // while a timer callback runs: the tag of the timer
	finisher      *thread
	finisherParks bool
	willPark      bool
}

var ex *exec // the execution in progress (nil outside Run)

// BaseUnixNano is virtual time zero.
const BaseUnixNano int64 = 1_800_000_000_000_000_000

// Active reports whether a controlled execution is in progress and not being torn down.
func Active() bool { return ex != nil && !ex.aborting }

// Run executes body as thread 0 under the scheduler, following prefix and then taking
// option 0 at every later decision.
func Run(cfg Config, prefix []int, setup func(), body func()) *Result {
	if ex != nil {
		panic("vrt: nested Run")
	}
	if cfg.StepBudget == 0 {
		cfg.StepBudget = 200000
	}
	if cfg.SpinLimit == 0 {
		cfg.SpinLimit = 64
	}
	e := &exec{cfg: cfg, prefix: prefix, res: &Result{}, doneCh: make(chan struct{}), enterSw: map[string]bool{}, taps: map[string][]func(args ...any){}}
	ex = e
	if setup != nil {
		setup()
	}
	t := e.newThread("main")
	e.cur = t
	e.startThread(t, body)
	t.wake <- struct{}{}
	<-e.doneCh
	// tear down: first the thread that ended the execution (it is either unwinding by itself
	// or about to park), then every other leftover thread, strictly one at a time.
	if f := e.finisher; f != nil {
		if e.finisherParks {
			f.wake <- struct{}{}
		}
		<-f.exited
	}
	for _, th := range e.threads {
		select {
		case <-th.exited:
			continue
		default:
		}
		select {
		case th.wake <- struct{}{}:
		default:
		}
		<-th.exited
	}
	e.live.Wait()
	if e.hb != nil {
		e.res.Races = e.hb.results()
	}
	hb = nil
	e.res.VNow = e.now
	e.res.MaxThreads = len(e.threads)
	ex = nil
	return e.res
}

func (e *exec) newThread(name string) *thread {
	t := &thread{id: len(e.threads), name: name, wake: make(chan struct{}, 1), exited: make(chan struct{})}
	t.tag = e.curTag()
	e.threads = append(e.threads, t)
	return t
}

func (e *exec) startThread(t *thread, body func()) {
	e.live.Add(1)
	go func() {
		defer e.live.Done()
		defer close(t.exited)
		<-t.wake
		if e.aborting {
			t.done = true
			return
		}
		defer func() {
			r := recover()
			if e.aborting {
				t.done = true
				return
			}
			if r != nil {
				e.res.Panic = fmt.Sprintf("thread %s: panic: %v\n%s", t.name, r, debug.Stack())
				t.done = true
				e.finish()
				return
			}
			t.done = true
			e.reschedule(KExit, "")
		}()
		body()
	}()
}

func (e *exec) markSpinners() {
	for _, t := range e.threads {
		if !t.done && t.spinPark && e.shadowH == t.spinH {
			for i := len(e.res.Spins) - 1; i >= 0; i-- {
				if e.res.Spins[i].tid == t.id {
					e.res.Spins[i].AtQuiescence = true
					break
				}
			}
		}
	}
}

// finish ends the execution; called by the baton holder.
func (e *exec) finish() {
	if e.finished {
		return
	}
	e.finished = true
	e.aborting = true
	e.finisher = e.cur
	e.finisherParks = e.willPark
	for _, t := range e.threads {
		if !t.done && t != e.cur && !t.daemon {
			e.res.Blocked = append(e.res.Blocked, t.name+": "+t.why)
		} else if !t.done && t == e.cur && t.pred != nil && !t.daemon {
			e.res.Blocked = append(e.res.Blocked, t.name+": "+t.why)
		}
	}
	sort.Strings(e.res.Blocked)
	close(e.doneCh)
}

// abortCheck is called after a thread is woken: if the execution is being torn down the
// thread unwinds (deferred functions run; shim calls are no-ops while aborting).
func (e *exec) abortCheck() {
	if e.aborting {
		runtime.Goexit()
	}
}

func (t *thread) enabled(e *exec) bool {
	if t.done {
		return false
	}
	if t.quiesce {
		return false
	}
	if t.spinPark {
		if e.shadowH == t.spinH {
			return false
		}
		t.spinPark = false
	}
	if t.pred != nil {
		if !t.pred() {
			return false
		}
	}
	return true
}

// candidates returns the enabled threads in round-robin order starting at cur.
func (e *exec) candidates() []*thread {
	n := len(e.threads)
	out := make([]*thread, 0, 4)
	start := e.cur.id
	for i := 0; i < n; i++ {
		t := e.threads[(start+i)%n]
		if t.enabled(e) {
			out = append(out, t)
		}
	}
	return out
}

func (e *exec) nextTimer() *timer {
	if e.noTimers {
		return nil
	}
	var best *timer
	for _, tm := range e.timers {
		if tm.dead {
			continue
		}
		if best == nil || tm.when < best.when || (tm.when == best.when && tm.seq < best.seq) {
			best = tm
		}
	}
	if best != nil && e.cfg.Horizon > 0 && best.when > e.cfg.Horizon {
		return nil
	}
	return best
}

func (e *exec) fireTimer(tm *timer) {
	tm.dead = true
	// compact
	live := e.timers[:0]
	for _, x := range e.timers {
		if !x.dead {
			live = append(live, x)
		}
	}
	e.timers = live
	if tm.when > e.now {
		e.now = tm.when
	}
	e.lastStep = nil
	if e.hb != nil {
		tok := tm.token.clone()
		e.hbOverride, e.hbOverrideTid = &tok, tm.tokenTid
	}
	e.tagOverride = &tm.tag
	tm.fire()
	e.tagOverride = nil
	e.hbOverride = nil
}

// Freeze ends the explored part of an execution: decisions after it still happen (default option, or
// whatever a replayed prefix says) but the explorer does not branch on them. A harness calls it once
// its oracle has been evaluated and only tear-down is left.
func Freeze() {
	if ex != nil {
		ex.frozen = true
	}
}

// decide records a decision among n options and returns the option taken.
func (e *exec) decide(n int, curEnabled, env bool, kind Kind, tids []int, label string) int {
	idx := len(e.res.Points)
	c := 0
	if idx < len(e.prefix) {
		c = e.prefix[idx]
		if c < 0 || c >= n {
			e.res.ReplayErr = fmt.Sprintf("decision %d: prefix asks for option %d of %d (%s)", idx, c, n, label)
			c = 0
			e.res.Points = append(e.res.Points, PointInfo{N: n, Chosen: c, CurEnabled: curEnabled, Env: env, Kind: kind, Tids: tids, Label: label, Frozen: e.frozen})
			e.finish()
			runtime.Goexit()
		}
	}
	e.res.Points = append(e.res.Points, PointInfo{N: n, Chosen: c, CurEnabled: curEnabled, Env: env, Kind: kind, Tids: tids, Label: label, Frozen: e.frozen})
	return c
}

// reschedule is the heart: called by the baton holder at a switch point (or when it blocks
// or exits). It returns when the calling thread holds the baton again.
func (e *exec) reschedule(kind Kind, label string) {
	me := e.cur
	for {
		cands := e.candidates()
		var tm *timer
		if len(cands) == 0 || e.cfg.TimerRace {
			tm = e.nextTimer()
		}
		if len(cands) == 0 {
			if tm != nil {
				e.fireTimer(tm)
				continue
			}
			// nobody can run: wake a quiescence waiter, else the execution is over
			e.markSpinners()
			var q *thread
			for _, t := range e.threads {
				if !t.done && t.quiesce {
					q = t
					break
				}
			}
			if q != nil {
				q.quiesce = false
				cands = []*thread{q}
			} else {
				e.willPark = !me.done
				e.finish()
				if me.done {
					return
				}
				<-me.wake
				e.abortCheck()
				return
			}
		}
		curEnabled := len(cands) > 0 && cands[0] == me
		n := len(cands)
		withTimer := tm != nil && len(cands) > 0 && e.cfg.TimerRace
		if withTimer {
			n++
		}
		choice := 0
		if n > 1 {
			tids := make([]int, 0, n)
			for _, t := range cands {
				tids = append(tids, t.id)
			}
			if withTimer {
				tids = append(tids, -1)
			}
			choice = e.decide(n, curEnabled, false, kind, tids, label)
		}
		if withTimer && choice == n-1 {
			e.fireTimer(tm)
			// prefer the thread the timer created / enabled: the newest thread if enabled
			last := e.threads[len(e.threads)-1]
			if last != me && last.enabled(e) {
				e.switchTo(last)
				return
			}
			continue
		}
		e.switchTo(cands[choice])
		return
	}
}

func (e *exec) switchTo(next *thread) {
	me := e.cur
	if next == me {
		return
	}
	e.cur = next
	next.wake <- struct{}{}
	if me.done {
		return
	}
	<-me.wake
	e.abortCheck()
}

// step is the per-operation bookkeeping shared by Point and Block.
// Trace, when set, receives one line per scheduling point (replay/debugging only).
var Trace func(line string)

func callerOutsideShim() string {
	pcs := make([]uintptr, 24)
	n := runtime.Callers(3, pcs)
	fr := runtime.CallersFrames(pcs[:n])
	for {
		f, more := fr.Next()
		if !strings.Contains(f.Function, "/internal/verif/v") {
			fn := f.Function
			if i := strings.LastIndex(fn, "/"); i >= 0 {
				fn = fn[i+1:]
			}
			return fmt.Sprintf("%s:%d", fn, f.Line)
		}
		if !more {
			return "?"
		}
	}
}

func (e *exec) step(kind Kind, obj uintptr) {
	e.res.Steps++
	if Trace != nil {
		Trace(fmt.Sprintf("step %d [%s] kind=%d obj=%x at %s", e.res.Steps, e.cur.name, kind, obj&0xffff, callerOutsideShim()))
	}
	if e.res.Steps > e.cfg.StepBudget {
		e.res.Runaway = true
		e.finish()
		runtime.Goexit()
	}
	me := e.cur
	if e.lastStep != me {
		e.lastStep = me
		me.spinSeen = nil
	}
	if kind == KAtomic || kind == KLock {
		if me.spinSeen == nil {
			me.spinSeen = make(map[spinKey]int)
		}
		k := spinKey{kind, obj, e.shadowH}
		me.spinSeen[k]++
		if me.spinSeen[k] > e.cfg.SpinLimit {
			st := string(debug.Stack())
			e.res.Spins = append(e.res.Spins, SpinReport{Thread: me.name, Op: fmt.Sprintf("kind=%d", kind), Stack: trimStack(st), tid: me.id})
			me.spinSeen = nil
			me.spinPark = true
			me.spinH = e.shadowH
			me.why = "parked spinner"
			e.reschedule(KBlock, "spin")
		}
	}
}

func trimStack(s string) string {
	lines := strings.Split(s, "\n")
	var out []string
	for i := 0; i+1 < len(lines); i += 1 {
		l := lines[i]
		if strings.HasPrefix(l, "github.com/kercylan98/vivid/") && !strings.Contains(l, "/internal/verif/v") {
			l = strings.TrimSpace(l)
			if i := strings.LastIndex(l, "("); i > 0 {
				l = l[:i]
			}
			l = strings.TrimPrefix(l, "github.com/kercylan98/vivid/")
			out = append(out, l)
			if len(out) >= 6 {
				break
			}
		}
	}
	return strings.Join(out, " <- ")
}

// Point is a scheduling point before a visible operation on obj.
func Point(kind Kind, obj uintptr) {
	e := ex
	if e == nil || e.aborting {
		if e != nil {
			// a torn-down thread must not keep running instrumented code
		}
		return
	}
	e.step(kind, obj)
	if e.cfg.Coarse && kind != KYield && kind != KEnter && !(kind == KSpawn && e.cfg.SwitchOnSpawn) && !(kind == KTime && e.cfg.SwitchOnTime) && !(kind == KNet && e.cfg.SwitchOnNet) && !((kind == KLock || kind == KAtomic) && e.fineCaller()) {
		return
	}
	e.reschedule(kind, "")
}

// fineCaller reports whether the operation being executed was issued by code of one of cfg.FinePkgs
// (the first frame outside the shims decides).
func (e *exec) fineCaller() bool {
	if len(e.cfg.FinePkgs) == 0 {
		return false
	}
	var pcs [16]uintptr
	n := runtime.Callers(3, pcs[:])
	frames := runtime.CallersFrames(pcs[:n])
	for {
		f, more := frames.Next()
		if !strings.Contains(f.Function, "/internal/verif/") {
			for _, p := range e.cfg.FinePkgs {
				if strings.Contains(f.Function, p) {
					return true
				}
			}
			return false
		}
		if !more {
			return false
		}
	}
}

// Block parks the calling thread until pred() holds. pred is evaluated by whichever thread
// holds the baton; it must be side-effect free or idempotent-once-true (see chan helpers).
func Block(kind Kind, obj uintptr, why string, pred func() bool) {
	e := ex
	if e == nil {
		panic("vrt.Block outside a controlled execution: " + why)
	}
	if e.aborting {
		runtime.Goexit()
	}
	e.step(kind, obj)
	me := e.cur
	if !e.cfg.Coarse || ((kind == KLock || kind == KAtomic) && e.fineCaller()) {
		e.reschedule(kind, "") // the scheduling point before the operation
	}
	for !pred() {
		me.pred = pred
		me.why = why
		e.reschedule(KBlock, why)
		me.pred = nil
		me.why = ""
	}
}

// Go starts a new thread.
func Go(name string, body func()) {
	e := ex
	if e == nil {
		go body()
		return
	}
	if e.aborting {
		return
	}
	t := e.newThread(fmt.Sprintf("%s#%d", name, len(e.threads)))
	if e.hb != nil {
		e.hb.spawn(e.cur.id, t.id)
	}
	e.startThread(t, body)
	Point(KSpawn, 0)
}

// GoDaemon starts a thread that is expected to stay blocked forever (not reported as stuck).
func GoDaemon(name string, body func()) {
	e := ex
	if e == nil || e.aborting {
		return
	}
	t := e.newThread(fmt.Sprintf("%s#%d", name, len(e.threads)))
	t.daemon = true
	if e.hb != nil {
		e.hb.spawn(e.cur.id, t.id)
	}
	e.startThread(t, body)
}

// Yield is an explicit scheduling point for harness bodies.
func Yield() { Point(KYield, 0) }

// Choose is an environment choice among n options; 0 is the default.
func Choose(n int, label string) int {
	e := ex
	if e == nil || e.aborting || n <= 1 {
		return 0
	}
	return e.decide(n, false, true, KChoose, nil, label)
}

// Quiesce blocks the caller until no other thread can run and no timer is pending
// (within the horizon). Only harness threads use it.
func Quiesce() {
	e := ex
	if e == nil || e.aborting {
		return
	}
	me := e.cur
	me.quiesce = true
	me.why = "Quiesce"
	e.reschedule(KBlock, "quiesce")
	me.why = ""
}

// QuiesceNoTimers blocks the caller until no other thread can run, without firing timers:
// it temporarily sets the horizon to "now".
func QuiesceNoTimers() {
	e := ex
	if e == nil || e.aborting {
		return
	}
	old := e.noTimers
	e.noTimers = true
	Quiesce()
	e.noTimers = old
}

// HoldTimers stops (true) / resumes (false) the firing of timers altogether.
func HoldTimers(on bool) {
	if ex != nil {
		ex.noTimers = on
	}
}

// SetHorizon changes the virtual-time horizon (absolute virtual ns; 0 = unlimited).
func SetHorizon(h int64) {
	if ex != nil {
		ex.cfg.Horizon = h
	}
}

// Now returns virtual nanoseconds since the start of the execution.
func Now() int64 {
	if ex == nil {
		return 0
	}
	return ex.now
}

// AddTimer registers fire to run (with the baton held, not as a thread) at virtual time
// now+d. The returned cancel function reports whether the timer was still pending.
func AddTimer(d int64, name string, fire func()) (cancel func() bool) {
	e := ex
	if e == nil || e.aborting {
		return func() bool { return false }
	}
	if d < 0 {
		d = 0
	}
	e.tseq++
	tm := &timer{when: e.now + d, seq: e.tseq, fire: fire, name: name, tag: e.curTag()}
	if e.hb != nil {
		tm.tokenTid = e.cur.id
		if e.hbOverride != nil {
			tm.tokenTid = e.hbOverrideTid
		}
		tm.token = e.hb.snapshot()
	}
	e.timers = append(e.timers, tm)
	return func() bool {
		if tm.dead {
			return false
		}
		tm.dead = true
		return true
	}
}

// PendingTimers lists the names of pending timers (for oracles about leaked timers).
func PendingTimers() []string {
	var out []string
	if ex == nil {
		return out
	}
	for _, tm := range ex.timers {
		if !tm.dead {
			out = append(out, fmt.Sprintf("%s@%d", tm.name, tm.when))
		}
	}
	sort.Strings(out)
	return out
}

// Shadow folds a state change of a shim-managed object into the shadow-state hash used by
// the spin detector.
func Shadow(obj uintptr, old, new uint64) {
	e := ex
	if e == nil || old == new {
		return
	}
	e.shadowH ^= mix(uint64(obj), old) ^ mix(uint64(obj), new)
}

func mix(a, b uint64) uint64 {
	x := a*0x9E3779B97F4A7C15 ^ (b+0x7F4A7C15)*0xBF58476D1CE4E5B9
	x ^= x >> 31
	x *= 0x94D049BB133111EB
	x ^= x >> 29
	return x
}

func (e *exec) curTag() string {
	if e.tagOverride != nil {
		return *e.tagOverride
	}
	if e.cur != nil {
		return e.cur.tag
	}
	return ""
}

// SetTag labels the running thread. Threads it starts and timers it arms inherit the label (transitively: a timer
// callback runs under the label of whoever armed it), so a harness that sets a tag before starting a component can
// later ask which component the running code belongs to.
func SetTag(tag string) {
	if ex != nil && ex.cur != nil {
		ex.cur.tag = tag
	}
}

// Tag returns the label of the running thread (inside a timer callback: of the timer).
func Tag() string {
	if ex == nil {
		return ""
	}
	return ex.curTag()
}

// CurrentThread returns the id and name of the running thread.
func CurrentThread() (int, string) {
	if ex == nil || ex.cur == nil {
		return -1, ""
	}
	return ex.cur.id, ex.cur.name
}

// LiveThreads returns "name: why" for every thread that has not finished, excluding the caller.
func LiveThreads() []string {
	var out []string
	if ex == nil {
		return out
	}
	for _, t := range ex.threads {
		if !t.done && t != ex.cur && !t.daemon {
			out = append(out, t.name+": "+t.why)
		}
	}
	sort.Strings(out)
	return out
}

// ---- entry taps ---------------------------------------------------------------------

// SwitchOnEnter makes Enter(name) a switch point (coarse mode's "between messages").
func SwitchOnEnter(name string) {
	if ex != nil {
		ex.enterSw[name] = true
	}
}

// Tap subscribes fn to Enter(name, args...).
func Tap(name string, fn func(args ...any)) {
	if ex != nil {
		ex.taps[name] = append(ex.taps[name], fn)
	}
}

// Enter is inserted by the rewriter at the entry of configured functions.
func Enter(name string, args ...any) {
	e := ex
	if e == nil || e.aborting {
		return
	}
	// taps first: the call has happened (its arguments exist) before any switch at this point
	for _, fn := range e.taps[name] {
		fn(args...)
	}
	if e.enterSw[name] {
		Point(KEnter, 0)
	}
}

// OnReset registers a function run at the start of every execution's setup (used by shims
// with package-level state).
func OnReset(fn func()) {
	if ex != nil {
		ex.resetFns = append(ex.resetFns, fn)
	}
}

// Spawn creates a thread without a scheduling point (for use inside timer callbacks, which
// run on the scheduler's behalf).
func Spawn(name string, body func()) {
	e := ex
	if e == nil || e.aborting {
		return
	}
	t := e.newThread(fmt.Sprintf("%s#%d", name, len(e.threads)))
	if e.hb != nil {
		e.hb.spawn(e.cur.id, t.id)
	}
	e.startThread(t, body)
}
