package vrt

import (
	"reflect"
	"unsafe"
)

func chanAddr[T any](ch <-chan T) uintptr {
	return uintptr(*(*unsafe.Pointer)(unsafe.Pointer(&ch)))
}

// ChanAddr is the identity of a channel for happens-before bookkeeping.
func ChanAddr[T any](ch chan T) uintptr {
	return uintptr(*(*unsafe.Pointer)(unsafe.Pointer(&ch)))
}

// Recv is `<-ch`.
func Recv[T any](ch <-chan T) T {
	v, _ := Recv2(ch)
	return v
}

// Recv2 is `v, ok := <-ch`.
func Recv2[T any](ch <-chan T) (v T, ok bool) {
	if ex == nil {
		v, ok = <-ch
		return
	}
	if ch == nil {
		Block(KChan, 0, "recv on nil channel", func() bool { return false })
		return
	}
	got := false
	a := chanAddr(ch)
	Block(KChan, a, "chan recv", func() bool {
		if got {
			return true
		}
		select {
		case v, ok = <-ch:
			got = true
			return true
		default:
			return false
		}
	})
	if !got { // only when tearing down
		return
	}
	AcquireChan(a)
	return
}

// Send is `ch <- v`.
func Send[T any](ch chan<- T, v T) {
	if ex == nil {
		ch <- v
		return
	}
	if ch == nil {
		Block(KChan, 0, "send on nil channel", func() bool { return false })
		return
	}
	sent := false
	var rch <-chan T
	_ = rch
	a := uintptr(*(*unsafe.Pointer)(unsafe.Pointer(&ch)))
	ReleaseMerge(a)
	Block(KChan, a, "chan send", func() bool {
		if sent {
			return true
		}
		select {
		case ch <- v:
			sent = true
			return true
		default:
			return false
		}
	})
}

// Close is `close(ch)`.
func Close[T any](ch chan<- T) {
	if ex != nil && !ex.aborting {
		a := uintptr(*(*unsafe.Pointer)(unsafe.Pointer(&ch)))
		Point(KChan, a)
		ReleaseMerge(a)
		Shadow(a, 0, 1)
	}
	close(ch)
}

// SelCase is one case of a rewritten select statement.
type SelCase struct {
	Dir  reflect.SelectDir
	Chan reflect.Value
	Val  reflect.Value
}

func RecvCase[T any](ch <-chan T) SelCase {
	return SelCase{Dir: reflect.SelectRecv, Chan: reflect.ValueOf(ch)}
}

func SendCase[T any](ch chan<- T, v T) SelCase {
	return SelCase{Dir: reflect.SelectSend, Chan: reflect.ValueOf(ch), Val: reflect.ValueOf(&v).Elem()}
}

// Select is a rewritten select statement: it returns the index of the case that fired
// (-1 for default), the received value (as any) and the ok flag.
func Select(hasDefault bool, cases ...SelCase) (int, any, bool) {
	rc := make([]reflect.SelectCase, 0, len(cases)+1)
	for _, c := range cases {
		rc = append(rc, reflect.SelectCase{Dir: c.Dir, Chan: c.Chan, Send: c.Val})
	}
	if ex == nil {
		if hasDefault {
			rc = append(rc, reflect.SelectCase{Dir: reflect.SelectDefault})
		}
		i, v, ok := reflect.Select(rc)
		if hasDefault && i == len(cases) {
			return -1, nil, false
		}
		return i, valOrNil(v), ok
	}
	try := append(rc, reflect.SelectCase{Dir: reflect.SelectDefault})
	idx, got := -1, false
	var rv reflect.Value
	var rok bool
	attempt := func() bool {
		if got {
			return true
		}
		// deterministic priority: first ready case in source order
		for i := range rc {
			one := []reflect.SelectCase{rc[i], {Dir: reflect.SelectDefault}}
			if !rc[i].Chan.IsValid() || rc[i].Chan.IsNil() {
				continue
			}
			j, v, ok := reflect.Select(one)
			if j == 0 {
				idx, rv, rok, got = i, v, ok, true
				return true
			}
		}
		return false
	}
	_ = try
	if hasDefault {
		Point(KChan, 0)
		if ex.aborting {
			return -1, nil, false
		}
		if attempt() {
			return idx, valOrNil(rv), rok
		}
		return -1, nil, false
	}
	Block(KChan, 0, "select", attempt)
	if !got {
		return -1, nil, false
	}
	if rc[idx].Dir == reflect.SelectRecv {
		AcquireChan(uintptr(rc[idx].Chan.UnsafePointer()))
	}
	return idx, valOrNil(rv), rok
}

func valOrNil(v reflect.Value) any {
	if !v.IsValid() {
		return nil
	}
	return v.Interface()
}

// As converts the value returned by Select back to the element type of ch.
func As[T any](ch <-chan T, v any) T {
	if v == nil {
		var z T
		return z
	}
	return v.(T)
}
