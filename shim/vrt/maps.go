package vrt

import (
	"cmp"
	"fmt"
	"iter"
	"reflect"
	"sort"
)

// RangeMap replaces `range m` over a map in instrumented code: keys are visited in sorted
// order (one of the legal orders), entries deleted during the iteration are skipped, entries
// added during the iteration are not visited. Go randomises map order per loop; owning the
// order is what makes a choice sequence replayable.
func RangeMap[M ~map[K]V, K comparable, V any](m M) iter.Seq2[K, V] {
	return func(yield func(K, V) bool) {
		if len(m) == 0 {
			return
		}
		keys := SortedKeys(m)
		for _, k := range keys {
			v, ok := m[k]
			if !ok {
				continue
			}
			if !yield(k, v) {
				return
			}
		}
	}
}

// SortedKeys returns the keys of m in a deterministic order.
func SortedKeys[M ~map[K]V, K comparable, V any](m M) []K {
	keys := make([]K, 0, len(m))
	for k := range m {
		keys = append(keys, k)
	}
	if len(keys) < 2 {
		return keys
	}
	sort.Slice(keys, func(i, j int) bool { return keyLess(any(keys[i]), any(keys[j])) })
	return keys
}

func keyLess(a, b any) bool {
	switch x := a.(type) {
	case string:
		return x < b.(string)
	case int:
		return x < b.(int)
	case int32:
		return x < b.(int32)
	case int64:
		return x < b.(int64)
	case uint32:
		return x < b.(uint32)
	case uint64:
		return x < b.(uint64)
	case reflect.Type:
		return cmp.Less(x.String(), b.(reflect.Type).String())
	}
	ra, rb := reflect.ValueOf(a), reflect.ValueOf(b)
	switch ra.Kind() {
	case reflect.String:
		return ra.String() < rb.String()
	case reflect.Int, reflect.Int8, reflect.Int16, reflect.Int32, reflect.Int64:
		return ra.Int() < rb.Int()
	case reflect.Uint, reflect.Uint8, reflect.Uint16, reflect.Uint32, reflect.Uint64, reflect.Uintptr:
		return ra.Uint() < rb.Uint()
	case reflect.Pointer, reflect.Chan, reflect.UnsafePointer, reflect.Func, reflect.Map:
		panic(fmt.Sprintf("vrt.RangeMap: key type %T has no deterministic order", a))
	}
	return fmt.Sprintf("%#v", a) < fmt.Sprintf("%#v", b)
}
