package vrt

// Happens-before hooks (vhb). Implemented in hb_impl.go when race detection is enabled
// for an execution; otherwise they cost one nil check.

var hb *hbState

func Acquire(obj uintptr) {
	if hb != nil {
		hb.acquire(obj)
	}
}
func Release(obj uintptr) {
	if hb != nil {
		hb.release(obj, false)
	}
}
func ReleaseMerge(obj uintptr) {
	if hb != nil {
		hb.release(obj, true)
	}
}
func AcquireChan(obj uintptr) {
	if hb != nil {
		hb.acquire(obj)
	}
}

// R and W are inserted by the rewriter before reads / writes of shared locations.
func R(obj uintptr) {
	if hb != nil {
		hb.access(obj, false)
	}
}
func W(obj uintptr) {
	if hb != nil {
		hb.access(obj, true)
	}
}

type hbState struct{}

func (h *hbState) acquire(obj uintptr)             {}
func (h *hbState) release(obj uintptr, merge bool) {}
func (h *hbState) access(obj uintptr, write bool)  {}
