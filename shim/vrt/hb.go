package vrt

import (
	"fmt"
	"sort"
	"unsafe"
)

// Happens-before race detection ("vhb"): vector clocks maintained by the shims.
//
// Edges: go (parent -> child), timer arming -> timer callback, mutex / rwmutex unlock -> lock,
// atomics (a load / RMW acquires from the stores / RMWs before it; RMWs chain), sync.Map
// operations (per map, totally ordered: coarser than reality, which can only hide races),
// WaitGroup Done -> Wait, Pool Put -> Get, channel close/send -> receive; a receive from a
// channel the shims never saw written (context cancellation by un-instrumented code)
// acquires the join of all threads' clocks. The relation therefore over-approximates Go's:
// two accesses it leaves unordered are unordered in Go's memory model as well.

type vclock []uint32

func (v vclock) get(i int) uint32 {
	if i < len(v) {
		return v[i]
	}
	return 0
}

func (v *vclock) set(i int, c uint32) {
	for len(*v) <= i {
		*v = append(*v, 0)
	}
	(*v)[i] = c
}

func (v *vclock) join(o vclock) {
	for i, c := range o {
		if c > v.get(i) {
			v.set(i, c)
		}
	}
}

func (v vclock) clone() vclock { return append(vclock(nil), v...) }

type access struct {
	tid   int
	clock uint32
	site  string
	write bool
}

type location struct {
	lastWrite access
	hasWrite  bool
	reads     []access // at most one per thread
}

// RaceReport is one pair of conflicting accesses unordered by happens-before.
type RaceReport struct {
	First  string // "write at site by thread"
	Second string
	Key    string // canonical (site pair)
}

type hbState struct {
	keep    []unsafe.Pointer // keeps every observed location alive so that addresses are not reused within an execution
	e       *exec
	threads []vclock
	syncs   map[uintptr]vclock
	locs    map[uintptr]*location
	races   map[string]RaceReport
}

var hb *hbState

// EnableRaces switches the race detector on for the current execution (call from Setup).
func EnableRaces() {
	if ex == nil {
		return
	}
	hb = &hbState{e: ex, syncs: map[uintptr]vclock{}, locs: map[uintptr]*location{}, races: map[string]RaceReport{}}
	ex.hb = hb
}

// AccessPoints makes plain reads/writes of instrumented locations scheduling points in fine
// mode, so that the value-level consequences of a race become reachable executions.
func AccessPoints(on bool) {
	if ex != nil {
		ex.accessPoints = on
	}
}

func (h *hbState) vc(tid int) *vclock {
	for len(h.threads) <= tid {
		h.threads = append(h.threads, nil)
	}
	if h.threads[tid] == nil {
		h.threads[tid] = vclock{}
		h.threads[tid].set(tid, 1)
	}
	return &h.threads[tid]
}

func (h *hbState) cur() (int, *vclock) {
	t := h.e.cur
	if h.e.hbOverride != nil {
		return h.e.hbOverrideTid, h.e.hbOverride
	}
	return t.id, h.vc(t.id)
}

func (h *hbState) acquire(obj uintptr) {
	_, v := h.cur()
	if l, ok := h.syncs[obj]; ok {
		v.join(l)
	}
}

func (h *hbState) acquireUnknown() {
	_, v := h.cur()
	for i := range h.threads {
		if h.threads[i] != nil {
			v.join(h.threads[i])
		}
	}
}

func (h *hbState) release(obj uintptr, merge bool) {
	tid, v := h.cur()
	if merge {
		l := h.syncs[obj]
		l.join(*v)
		h.syncs[obj] = l
	} else {
		h.syncs[obj] = v.clone()
	}
	v.set(tid, v.get(tid)+1)
}

func (h *hbState) spawn(parent, child int) {
	pv := h.vc(parent)
	if h.e.hbOverride != nil {
		pv = h.e.hbOverride
	}
	cv := pv.clone()
	cv.set(child, 1)
	for len(h.threads) <= child {
		h.threads = append(h.threads, nil)
	}
	h.threads[child] = cv
	if h.e.hbOverride == nil {
		pv.set(parent, pv.get(parent)+1)
	}
}

func (h *hbState) snapshot() vclock {
	tid, v := h.cur()
	s := v.clone()
	v.set(tid, v.get(tid)+1)
	return s
}

func (h *hbState) report(a, b access) {
	ka, kb := a.site, b.site
	if kb < ka {
		ka, kb = kb, ka
	}
	key := ka + " <-> " + kb
	if _, ok := h.races[key]; ok {
		return
	}
	name := func(x access) string {
		k := "read"
		if x.write {
			k = "write"
		}
		tn := "?"
		if x.tid < len(h.e.threads) {
			tn = h.e.threads[x.tid].name
		}
		return fmt.Sprintf("%s at %s by %s", k, x.site, tn)
	}
	h.races[key] = RaceReport{First: name(a), Second: name(b), Key: key}
}

func (h *hbState) access(p unsafe.Pointer, write bool, site string) {
	tid, v := h.cur()
	obj := uintptr(p)
	l := h.locs[obj]
	if l == nil {
		l = &location{}
		h.locs[obj] = l
		h.keep = append(h.keep, p)
	}
	me := access{tid: tid, clock: v.get(tid), site: site, write: write}
	if l.hasWrite && l.lastWrite.tid != tid && l.lastWrite.clock > v.get(l.lastWrite.tid) {
		h.report(l.lastWrite, me)
	}
	if write {
		for _, r := range l.reads {
			if r.tid != tid && r.clock > v.get(r.tid) {
				h.report(r, me)
			}
		}
		l.lastWrite, l.hasWrite = me, true
		l.reads = l.reads[:0]
	} else {
		for i := range l.reads {
			if l.reads[i].tid == tid {
				l.reads[i] = me
				return
			}
		}
		l.reads = append(l.reads, me)
	}
}

func (h *hbState) results() []RaceReport {
	var out []RaceReport
	for _, r := range h.races {
		out = append(out, r)
	}
	sort.Slice(out, func(i, j int) bool { return out[i].Key < out[j].Key })
	return out
}

// ---- hooks called by the shims and by rewritten code ----------------------------------------------

func Acquire(obj uintptr) {
	if hb != nil && ex != nil && !ex.aborting {
		hb.acquire(obj)
	}
}
func Release(obj uintptr) {
	if hb != nil && ex != nil && !ex.aborting {
		hb.release(obj, false)
	}
}
func ReleaseMerge(obj uintptr) {
	if hb != nil && ex != nil && !ex.aborting {
		hb.release(obj, true)
	}
}

// AcquireChan is the receive side of a channel: if the shims never saw a send/close on it the
// writer is un-instrumented code, and the receiver conservatively acquires everything.
func AcquireChan(obj uintptr) {
	if hb != nil && ex != nil && !ex.aborting {
		if _, ok := hb.syncs[obj]; ok {
			hb.acquire(obj)
		} else {
			hb.acquireUnknown()
		}
	}
}

// R / W are inserted by the rewriter before reads / writes of struct fields and map objects.
func R(obj unsafe.Pointer, site string) {
	e := ex
	if e == nil || e.aborting {
		return
	}
	if e.accessPoints && !e.cfg.Coarse {
		Point(KAccess, uintptr(obj))
	}
	if hb != nil {
		hb.access(obj, false, site)
	}
}

func W(obj unsafe.Pointer, site string) {
	e := ex
	if e == nil || e.aborting {
		return
	}
	if e.accessPoints && !e.cfg.Coarse {
		Point(KAccess, uintptr(obj))
	}
	if hb != nil {
		hb.access(obj, true, site)
	}
}

// Addr / MapAddr compute location identities.
func Addr[T any](p *T) unsafe.Pointer { return unsafe.Pointer(p) }

func MapAddr[M ~map[K]V, K comparable, V any](m M) unsafe.Pointer {
	return *(*unsafe.Pointer)(unsafe.Pointer(&m))
}
