// Package vnet replaces "net" in the instrumented remoting packages (see vnet.go); what it
// does not override is re-exported from the real package (aliases_gen.go).
package vnet
