package vnet

// In-memory TCP for the instrumented remoting packages: Dial / ListenTCP / Conn on top of the
// controlled scheduler. Reads block as scheduler threads; how many bytes a Read returns, whether
// a dial is refused and where a connection breaks are environment choices (vrt.Choose) or a
// fault plan set by the harness; deadlines run on virtual time.

import (
	"errors"
	"fmt"
	"io"
	orig "net"
	"os"
	"sort"
	"syscall"
	"time"
	"unsafe"

	"github.com/kercylan98/vivid/internal/verif/vrt"
)

// Net is the network of the current execution; harnesses call Reset() at the start of a body.
var Net *Network

type Network struct {
	listeners map[string]*VListener
	nextPort  int
	Conns     []*VConn // every connection end ever created (client ends have even index)
	// ChunkOptions returns the candidate sizes of a Read that could return up to avail bytes
	// (first entry = default). nil: everything available.
	ChunkOptions func(c *VConn, avail int) []int
	// Stalled, if set, says that what was written towards this end is still in flight (network latency): Read blocks although
	// bytes (or the end of the stream) are on their way, until the harness lets them arrive. Deadlines and a local Close still apply.
	Stalled func(c *VConn) bool
	// Refuse decides whether the n-th dial (0-based) to addr is refused.
	Refuse func(addr string, n int) bool
	// CutAt: a connection (identified by the 0-based index of the dial to addr that created it)
	// breaks after this many bytes of its client->server stream have been delivered (-1 = never).
	CutAt func(addr string, dialIndex int) int
	dials map[string]int
	Log   []string
}

func Reset() *Network {
	Net = &Network{listeners: map[string]*VListener{}, nextPort: 40000, dials: map[string]int{}}
	return Net
}

func netw() *Network {
	if Net == nil {
		Reset()
	}
	return Net
}

type timeoutError struct{}

func (timeoutError) Error() string   { return "i/o timeout" }
func (timeoutError) Timeout() bool   { return true }
func (timeoutError) Temporary() bool { return true }
func (timeoutError) Unwrap() error   { return os.ErrDeadlineExceeded }

var errRefused = errors.New("connect: connection refused")
var errReset = errors.New("read: connection reset by peer")
var errBroken = errors.New("write: broken pipe")
var errClosed = orig.ErrClosed

// ---- listener ----------------------------------------------------------------------------------

type VListener struct {
	addr    *orig.TCPAddr
	key     string
	backlog []*VConn
	closed  bool
}

func normalize(addr string) string {
	host, port, err := orig.SplitHostPort(addr)
	if err != nil {
		return addr
	}
	if host == "" || host == "0.0.0.0" || host == "localhost" {
		host = "127.0.0.1"
	}
	return host + ":" + port
}

func ListenTCP(network string, laddr *orig.TCPAddr) (*VListener, error) {
	n := netw()
	key := normalize(laddr.String())
	if vrt.Active() {
		vrt.Point(vrt.KNet, 0)
	}
	if l, ok := n.listeners[key]; ok && !l.closed {
		return nil, fmt.Errorf("listen tcp %s: bind: address already in use", key)
	}
	l := &VListener{addr: laddr, key: key}
	n.listeners[key] = l
	return l, nil
}

func (l *VListener) Accept() (orig.Conn, error) {
	if l == nil {
		return nil, syscall.EINVAL
	}
	vrt.Block(vrt.KNet, uintptr(unsafe.Pointer(l)), "Listener.Accept", func() bool { return l.closed || len(l.backlog) > 0 })
	if len(l.backlog) == 0 {
		return nil, errClosed
	}
	c := l.backlog[0]
	l.backlog = l.backlog[1:]
	vrt.Acquire(uintptr(unsafe.Pointer(l)))
	return c, nil
}

func (l *VListener) Close() error {
	if l == nil { // like (*net.TCPListener)(nil).Close(): the code under test stores the typed nil of a failed ListenTCP in an interface
		return syscall.EINVAL
	}
	if vrt.Active() {
		vrt.Point(vrt.KNet, 0)
	}
	if l.closed {
		return errClosed
	}
	l.closed = true
	return nil
}

func (l *VListener) Addr() orig.Addr { return l.addr }

// ---- connections ----------------------------------------------------------------------------------

type VConn struct {
	ID        int
	Addr      string // the dialled address (both ends)
	DialIndex int
	Client    bool
	peer      *VConn
	buf       []byte // bytes written by the peer, not yet read
	closed    bool   // Close() called on this end
	eof       bool   // the peer closed: EOF after draining
	broken    bool   // the connection broke: reset after draining
	rdl, wdl  int64  // deadlines (virtual ns, 0 = none)
	local     *orig.TCPAddr
	remote    *orig.TCPAddr
	Sent      int // bytes this end has written (delivered to the peer)
	cutAt     int // break after this many bytes written by this end (-1 never)
	ReadCalls int
}

func Dial(network, address string) (orig.Conn, error) {
	n := netw()
	if vrt.Active() {
		vrt.Point(vrt.KNet, 0)
	}
	key := normalize(address)
	idx := n.dials[key]
	n.dials[key]++
	l, ok := n.listeners[key]
	if !ok || l.closed || (n.Refuse != nil && n.Refuse(key, idx)) {
		n.Log = append(n.Log, fmt.Sprintf("dial#%d %s refused", idx, key))
		return nil, &orig.OpError{Op: "dial", Net: "tcp", Err: errRefused}
	}
	n.nextPort++
	ca := &orig.TCPAddr{IP: orig.ParseIP("127.0.0.1"), Port: n.nextPort}
	c := &VConn{ID: len(n.Conns), Addr: key, DialIndex: idx, Client: true, local: ca, remote: l.addr, cutAt: -1}
	s := &VConn{ID: len(n.Conns) + 1, Addr: key, DialIndex: idx, local: l.addr, remote: ca, cutAt: -1}
	c.peer, s.peer = s, c
	if n.CutAt != nil {
		c.cutAt = n.CutAt(key, idx)
	}
	n.Conns = append(n.Conns, c, s)
	l.backlog = append(l.backlog, s)
	vrt.ReleaseMerge(uintptr(unsafe.Pointer(l)))
	n.Log = append(n.Log, fmt.Sprintf("dial#%d %s connected", idx, key))
	return c, nil
}

func (c *VConn) Read(b []byte) (int, error) {
	c.ReadCalls++
	deadlineHit := func() bool { return c.rdl != 0 && vrt.Now() >= c.rdl }
	if c.rdl != 0 && !deadlineHit() {
		// make sure virtual time can reach the deadline while we are blocked
		vrt.AddTimer(c.rdl-vrt.Now(), "read-deadline", func() {})
	}
	vrt.Block(vrt.KNet, uintptr(unsafe.Pointer(c)), "Conn.Read", func() bool {
		if f := netw().Stalled; f != nil && f(c) {
			return c.closed || deadlineHit()
		}
		return len(c.buf) > 0 || c.closed || c.eof || c.broken || deadlineHit()
	})
	if f := netw().Stalled; f != nil && f(c) && !c.closed {
		return 0, &orig.OpError{Op: "read", Net: "tcp", Err: timeoutError{}}
	}
	switch {
	case c.closed:
		return 0, errClosed
	case len(c.buf) > 0:
		avail := len(c.buf)
		if avail > len(b) {
			avail = len(b)
		}
		n := avail
		if f := netw().ChunkOptions; f != nil && avail > 1 {
			opts := f(c, avail)
			if len(opts) > 1 {
				n = opts[vrt.Choose(len(opts), "read-size")]
			} else if len(opts) == 1 {
				n = opts[0]
			}
			if n < 1 || n > avail {
				n = avail
			}
		}
		copy(b, c.buf[:n])
		c.buf = c.buf[n:]
		vrt.Acquire(uintptr(unsafe.Pointer(c)))
		return n, nil
	case c.broken:
		return 0, &orig.OpError{Op: "read", Net: "tcp", Err: errReset}
	case c.eof:
		return 0, io.EOF
	default:
		return 0, &orig.OpError{Op: "read", Net: "tcp", Err: timeoutError{}}
	}
}

func (c *VConn) Write(b []byte) (int, error) {
	if vrt.Active() {
		vrt.Point(vrt.KNet, uintptr(unsafe.Pointer(c)))
	}
	if c.closed {
		return 0, errClosed
	}
	if c.broken || c.peer.closed || c.eof {
		return 0, &orig.OpError{Op: "write", Net: "tcp", Err: errBroken}
	}
	if c.wdl != 0 && vrt.Now() >= c.wdl {
		return 0, &orig.OpError{Op: "write", Net: "tcp", Err: timeoutError{}}
	}
	n := len(b)
	if c.cutAt >= 0 && c.Sent+n > c.cutAt {
		n = c.cutAt - c.Sent
		if n < 0 {
			n = 0
		}
		c.peer.buf = append(c.peer.buf, b[:n]...)
		c.Sent += n
		c.broken, c.peer.broken = true, true
		vrt.ReleaseMerge(uintptr(unsafe.Pointer(c.peer)))
		netw().Log = append(netw().Log, fmt.Sprintf("conn %d (dial#%d %s) cut after %d bytes", c.ID, c.DialIndex, c.Addr, c.Sent))
		return n, &orig.OpError{Op: "write", Net: "tcp", Err: errBroken}
	}
	c.peer.buf = append(c.peer.buf, b...)
	c.Sent += n
	vrt.ReleaseMerge(uintptr(unsafe.Pointer(c.peer)))
	return n, nil
}

func (c *VConn) Close() error {
	if vrt.Active() {
		vrt.Point(vrt.KNet, uintptr(unsafe.Pointer(c)))
	}
	if c.closed {
		return errClosed
	}
	c.closed = true
	c.peer.eof = true
	vrt.ReleaseMerge(uintptr(unsafe.Pointer(c.peer)))
	return nil
}

// Fin ends the connection cleanly from outside (a middlebox, or a peer process that died after its kernel sent
// FIN): both ends read io.EOF once their buffered data is consumed; nothing is reset.
func (c *VConn) Fin() {
	c.eof, c.peer.eof = true, true
	vrt.ReleaseMerge(uintptr(unsafe.Pointer(c)))
	vrt.ReleaseMerge(uintptr(unsafe.Pointer(c.peer)))
}

// Break severs the connection from outside (fault injection by a harness).
func (c *VConn) Break() {
	c.broken, c.peer.broken = true, true
}

func (c *VConn) LocalAddr() orig.Addr  { return c.local }
func (c *VConn) RemoteAddr() orig.Addr { return c.remote }

func vdl(t time.Time) int64 {
	if t.IsZero() {
		return 0
	}
	d := t.UnixNano() - vrt.BaseUnixNano
	if d <= 0 {
		d = 1 // already expired
	}
	return d
}

func (c *VConn) SetDeadline(t time.Time) error {
	c.rdl, c.wdl = vdl(t), vdl(t)
	return nil
}
func (c *VConn) SetReadDeadline(t time.Time) error {
	c.rdl = vdl(t)
	return nil
}
func (c *VConn) SetWriteDeadline(t time.Time) error {
	c.wdl = vdl(t)
	return nil
}

// Pending returns, per connection end, the bytes written to it that nobody has read.
func (n *Network) Pending() map[int]int {
	out := map[int]int{}
	for _, c := range n.Conns {
		if len(c.buf) > 0 {
			out[c.ID] = len(c.buf)
		}
	}
	return out
}

func (n *Network) Summary() string {
	var keys []int
	p := n.Pending()
	for k := range p {
		keys = append(keys, k)
	}
	sort.Ints(keys)
	s := ""
	for _, k := range keys {
		s += fmt.Sprintf("conn%d:%dB ", k, p[k])
	}
	return s
}
