package vsys

import "fmt"

// CheckLifecycle applies the per-incarnation trace grammar of C05 to everything the scripted
// behaviours saw. It needs no scenario-specific expectation.
func CheckLifecycle(w *World) {
	x := w.X
	for _, path := range sortedKeys(w.Incs) {
		incs := w.Incs[path]
		seenInst := map[int]bool{}
		for i, inc := range incs {
			es := inc.Entries
			if len(es) == 0 {
				continue
			}
			if es[0].Type != "OnLaunch" {
				x.Fail("launch-first", "%s incarnation %d (restarted=%v) saw %s(%s) before any OnLaunch", path, i, inc.Restarted, es[0].Type, es[0].Detail)
			}
			launches, ownKilled, onKill := 0, -1, -1
			for j, e := range es {
				switch {
				case e.Type == "OnLaunch":
					launches++
				case e.Type == "OnKilled" && e.Detail == path:
					if ownKilled >= 0 {
						x.Fail("own-killed-once", "%s incarnation %d saw its own OnKilled twice", path, i)
					}
					ownKilled = j
				case e.Type == "OnKill":
					onKill = j
				}
				if ownKilled >= 0 && j > ownKilled {
					x.Fail("nothing-after-own-killed", "%s incarnation %d saw %s(%s) after the OnKilled naming itself", path, i, e.Type, e.Detail)
				}
			}
			if launches > 1 {
				x.Fail("launch-once", "%s incarnation %d saw OnLaunch %d times (an OnLaunch meant for another actor?)", path, i, launches)
			}
			if onKill >= 0 && ownKilled >= 0 && onKill > ownKilled {
				x.Fail("kill-before-killed", "%s incarnation %d saw OnKill after its own OnKilled", path, i)
			}
			if i+1 < len(incs) && incs[i+1].Ctx == inc.Ctx && ownKilled < 0 {
				x.Fail("restart-after-end", "%s: incarnation %d began before incarnation %d saw its own OnKilled", path, i+1, i)
			}
			if inc.Restarted {
				for _, e := range es {
					if e.Type == "Msg" && e.Detail == "become" {
						break // from here on the new incarnation switches behaviour itself
					}
					if e.Beh != "" {
						x.Fail("restart-resets-behavior", "%s incarnation %d (after restart) handled %s(%s) with the Become-d behaviour %q", path, i, e.Type, e.Detail, e.Beh)
						break
					}
				}
				if w.providerPaths[path] {
					if seenInst[es[0].Inst] {
						x.Fail("restart-fresh-instance", "%s incarnation %d (after restart, provider configured) runs on an instance used before", path, i)
					}
				}
			}
			for _, e := range es {
				if e.Inst != es[0].Inst {
					x.Fail("one-instance-per-incarnation", "%s incarnation %d began on actor instance #%d but %s(%s) was handled by instance #%d (an instance of another incarnation)", path, i, es[0].Inst, e.Type, e.Detail, e.Inst)
					break
				}
			}
			for _, e := range es {
				seenInst[e.Inst] = true
			}
		}
		if w.RestartedPending[path] {
			x.Fail("restart-launch-missing", "%s was restarted (ActorRestartedEvent) but its new incarnation has seen nothing at quiescence: no OnLaunch was delivered to it", path)
		}
	}
}

func sortedKeys[V any](m map[string]V) []string {
	var out []string
	for k := range m {
		out = append(out, k)
	}
	sortStrings(out)
	return out
}

func sortStrings(s []string) {
	for i := 1; i < len(s); i++ {
		for j := i; j > 0 && s[j] < s[j-1]; j-- {
			s[j], s[j-1] = s[j-1], s[j]
		}
	}
}

var _ = fmt.Sprintf
