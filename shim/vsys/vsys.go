// Package vsys is the shared actor-system harness: the real actor.System started under the
// controlled scheduler with a silent logger and virtual time, scripted recording actors, an
// observation log fed by (a) what behaviours see, (b) entry taps on HandleEnvelop / Publish,
// (c) private-state dumps through files injected into internal/actor.
package vsys

import (
	"fmt"
	"os"
	"reflect"
	"sort"
	"strings"

	"github.com/google/uuid"
	"github.com/kercylan98/vivid"
	"github.com/kercylan98/vivid/internal/actor"
	"github.com/kercylan98/vivid/internal/verif/vexp"
	"github.com/kercylan98/vivid/internal/verif/vrt"
	"github.com/kercylan98/vivid/pkg/log"
	"github.com/kercylan98/vivid/pkg/ves"
)

// ---- silent logger ---------------------------------------------------------------------

type nopLogger struct{}

func (nopLogger) Debug(string, ...any)          {}
func (nopLogger) Info(string, ...any)           {}
func (nopLogger) Warn(string, ...any)           {}
func (nopLogger) Error(string, ...any)          {}
func (l nopLogger) With(...any) log.Logger      { return l }
func (l nopLogger) WithGroup(string) log.Logger { return l }

var Silent log.Logger = nopLogger{}

// Verbose (env VSYS_VERBOSE) logs every envelope reaching HandleEnvelop; for replays only.
var Verbose = os.Getenv("VSYS_VERBOSE") != ""

// ---- deterministic uuid stream -----------------------------------------------------------

type ctrReader struct{ n uint64 }

func (c *ctrReader) Read(p []byte) (int, error) {
	for i := range p {
		c.n++
		p[i] = byte(c.n*2654435761>>7) ^ byte(c.n)
	}
	return len(p), nil
}

// ---- messages ------------------------------------------------------------------------------

// Msg is the user message of all scenarios.
type Msg struct{ ID string }

// Entry is one message as seen by a behaviour.
type Entry struct {
	At     int64 // virtual time
	Seq    int
	Actor  string // path
	Seg    int    // incarnation segment of that path (bumped at spawn / ActorRestartedEvent)
	Inst   int    // actor instance id (changes when a provider supplies a fresh instance)
	Beh    string // "" = OnReceive, otherwise the name of a Become-d behaviour
	Type   string // OnLaunch | OnKill | OnKilled | Msg | PipeResult | Event:<T> | <go type>
	Detail string
	Sender string
}

func (e Entry) String() string {
	b := ""
	if e.Beh != "" {
		b = "[" + e.Beh + "]"
	}
	return fmt.Sprintf("%s#%d.%d%s %s(%s)", e.Actor, e.Seg, e.Inst, b, e.Type, e.Detail)
}

// Pub is one event handed to EventStream.Publish (observed at the tap, i.e. "published").
type Pub struct {
	At        int64 // virtual time
	Seq       int
	Type      string
	Ref       string // the ActorRef field of lifecycle events
	Publisher string
	Detail    string
	Event     any
}

// Handled is one envelope reaching Context.HandleEnvelop (runtime level, before state checks).
type Handled struct {
	Seq    int
	Path   string
	Type   string
	Detail string
	System bool
	Ctx    *actor.Context
}

// Inc is one incarnation of an actor path: a fresh spawn (new Context) or the life after a
// supervised restart (ActorRestartedEvent observed for the path).
type Inc struct {
	Path      string
	Ctx       vivid.ActorContext
	Restarted bool // begun by a restart (false: by a spawn)
	Entries   []Entry
}

// Enq is one envelope entering a mailbox (observed at Enqueue entry).
type Enq struct {
	Seq    int
	MB     any
	Type   string
	Detail string
	System bool
}

type World struct {
	Enqs             []Enq
	Incs             map[string][]*Inc
	providerPaths    map[string]bool
	RestartedPending map[string]bool
	X                *vexp.X
	Sys              *actor.System
	Entries          []Entry
	Pubs             []Pub
	Handled          []Handled
	seq              int
	seg              map[string]int
	Ctxs             []*actor.Context
	ctxSeen          map[*actor.Context]bool
	instSeq          int
	Provided         map[string]int // path -> Provide() calls
	Prelaunched      map[string]int
	Decisions        []string                       // "supervisor<-child:decision"
	BeforeDecision   func(supervisor, child string) // runs inside the scripted decision maker before it answers
	InHandler        map[string]int
	Quiet            bool
}

func describe(m any) (typ, detail string) {
	switch v := m.(type) {
	case *vivid.OnLaunch:
		return "OnLaunch", ""
	case *vivid.OnKill:
		k := ""
		if v.Killer != nil {
			k = v.Killer.GetPath()
		}
		return "OnKill", fmt.Sprintf("poison=%v killer=%s", v.Poison, k)
	case *vivid.OnKilled:
		r := "<nil>"
		if v.Ref != nil {
			r = v.Ref.GetPath()
		}
		return "OnKilled", r
	case Msg:
		return "Msg", v.ID
	case *Msg:
		return "Msg", v.ID
	case *vivid.PipeResult:
		_, d := describe(v.Message)
		return "PipeResult", fmt.Sprintf("%s err=%v", d, v.Error)
	case ves.DeathLetterEvent:
		if _, nested := v.Envelope.Message().(ves.DeathLetterEvent); nested {
			return "Event:DeathLetter", "DeathLetter(...)->/"
		}
		t, d := describe(v.Envelope.Message())
		rc := "<nil>"
		if v.Envelope.Receiver() != nil {
			rc = v.Envelope.Receiver().GetPath()
		}
		return "Event:DeathLetter", fmt.Sprintf("%s(%s)->%s", t, d, rc)
	}
	t := reflect.TypeOf(m)
	if t == nil {
		return "<nil>", ""
	}
	if t.PkgPath() == "github.com/kercylan98/vivid/pkg/ves" {
		ref := ""
		if f := reflect.ValueOf(m).FieldByName("ActorRef"); f.IsValid() && !f.IsNil() {
			ref = f.Interface().(vivid.ActorRef).GetPath()
		}
		return "Event:" + t.Name(), ref
	}
	return t.String(), fmt.Sprintf("%v", m)
}

// NewWorld creates and starts a System inside the current execution. Must be called from the
// harness body (thread 0).
func NewWorld(x *vexp.X, opts ...vivid.ActorSystemOption) *World {
	w := &World{X: x, Incs: map[string][]*Inc{}, providerPaths: map[string]bool{}, RestartedPending: map[string]bool{}, seg: map[string]int{}, ctxSeen: map[*actor.Context]bool{}, Provided: map[string]int{}, Prelaunched: map[string]int{}, InHandler: map[string]int{}}
	uuid.SetRand(&ctrReader{})
	vrt.Tap("actor.(*Context).HandleEnvelop", func(args ...any) {
		c := args[0].(*actor.Context)
		if c.System() != vivid.ActorSystem(w.Sys) {
			return // another system of the same execution
		}
		env := args[1].(vivid.Envelop)
		w.noteCtx(c)
		t, d := describe(env.Message())
		w.seq++
		w.Handled = append(w.Handled, Handled{Seq: w.seq, Path: c.Ref().GetPath(), Type: t, Detail: d, System: env.System(), Ctx: c})
		if Verbose {
			x.Logf("@%dms %s handle %s <- %s(%s) sys=%v state=%d", vrt.Now()/1000000, c.Ref().GetAddress(), c.Ref().GetPath(), t, d, env.System(), actor.VerifCtx(c).State)
		}
	})
	vrt.Tap("mailbox.(*UnboundedMailbox).Enqueue", func(args ...any) {
		env := args[1].(vivid.Envelop)
		t, d := describe(env.Message())
		w.seq++
		w.Enqs = append(w.Enqs, Enq{Seq: w.seq, MB: args[0], Type: t, Detail: d, System: env.System()})
	})
	vrt.Tap("actor.(*eventStream).Publish", func(args ...any) {
		if args[0] != any(actor.VerifEventStream(w.Sys)) {
			return // another system of the same execution
		}
		ctx := args[1].(vivid.EventStreamContext)
		ev := args[2]
		t, d := describe(ev)
		w.seq++
		p := Pub{At: vrt.Now(), Seq: w.seq, Type: strings.TrimPrefix(t, "Event:"), Publisher: ctx.Ref().GetPath(), Detail: d, Event: ev}
		if f := reflect.ValueOf(ev).FieldByName("ActorRef"); f.IsValid() && f.Kind() == reflect.Interface && !f.IsNil() {
			p.Ref = f.Interface().(vivid.ActorRef).GetPath()
		}
		w.Pubs = append(w.Pubs, p)
		switch p.Type {
		case "ActorRestartedEvent":
			w.seg[p.Ref]++
			w.RestartedPending[p.Ref] = true
		}
		if !w.Quiet || verbose {
			if verbose {
				x.Logf("@%dms %s pub %s %s", vrt.Now()/1000000, ctx.Ref().GetAddress(), p.Type, d)
			} else {
				x.Logf("pub %s %s", p.Type, d)
			}
		}
	})
	all := append([]vivid.ActorSystemOption{vivid.WithActorSystemLogger(Silent)}, opts...)
	w.Sys = actor.NewSystem(all...)
	return w
}

func (w *World) noteCtx(c *actor.Context) {
	if !w.ctxSeen[c] {
		w.ctxSeen[c] = true
		w.Ctxs = append(w.Ctxs, c)
	}
}

// Start starts the system and fails the execution on error.
func (w *World) Start() {
	if err := w.Sys.Start(); err != nil {
		w.X.Fail("harness", "System.Start: %v", err)
	}
	w.noteCtx(actor.VerifRoot(w.Sys))
}

// Ref builds a fresh local reference to path (provenance: parsed from a string).
func (w *World) Ref(path string) vivid.ActorRef {
	addr := actor.LocalAddress
	if root := actor.VerifRoot(w.Sys); root != nil {
		addr = root.Ref().GetAddress() // the advertise address when remoting is enabled
	}
	r, err := w.Sys.CreateRef(addr, path)
	if err != nil {
		panic(err)
	}
	return r
}

// EnqsOf returns the envelopes that entered the mailbox of the context registered at path.
func (w *World) EnqsOf(c *actor.Context) []Enq {
	var out []Enq
	if c == nil {
		return out
	}
	mb := any(c.Mailbox())
	for _, e := range w.Enqs {
		if e.MB == mb {
			out = append(out, e)
		}
	}
	return out
}

// EntriesOf returns what the behaviours of path saw, in order.
func (w *World) EntriesOf(path string) []Entry {
	var out []Entry
	for _, e := range w.Entries {
		if e.Actor == path {
			out = append(out, e)
		}
	}
	return out
}

func (w *World) PubsOf(typ string) []Pub {
	var out []Pub
	for _, p := range w.Pubs {
		// dead letters reach the stream as ves.DeathLetterEvent; the tap names the ones published through TellSelf "DeathLetter"
		if p.Type == typ || (typ == "DeathLetterEvent" && p.Type == "DeathLetter") {
			out = append(out, p)
		}
	}
	return out
}

// Paths returns every actor path that appeared in the behaviour log, sorted.
func (w *World) Paths() []string {
	m := map[string]bool{}
	for _, e := range w.Entries {
		m[e.Actor] = true
	}
	var out []string
	for p := range m {
		out = append(out, p)
	}
	sort.Strings(out)
	return out
}

// Summary is a compact outcome string: per-actor traces.
func (w *World) Summary() string {
	var b strings.Builder
	for _, p := range w.Paths() {
		b.WriteString(p + ":")
		for _, e := range w.EntriesOf(p) {
			fmt.Fprintf(&b, " %d.%d%s:%s(%s)", e.Seg, e.Inst, e.Beh, e.Type, e.Detail)
		}
		b.WriteString("\n")
	}
	return b.String()
}

// ---- scripted actors ---------------------------------------------------------------------------

// Script describes one actor class of a scenario. All hooks are optional.
type Script struct {
	Name        string
	Children    []*Script // spawned on every OnLaunch
	Strategy    vivid.SupervisionStrategy
	UseProvider bool
	Launch      func(a *Act, ctx vivid.ActorContext)
	OnMsg       func(a *Act, ctx vivid.ActorContext, m Msg)
	OnKill      func(a *Act, ctx vivid.ActorContext, m *vivid.OnKill)
	OnKilled    func(a *Act, ctx vivid.ActorContext, m *vivid.OnKilled)
	OnOther     func(a *Act, ctx vivid.ActorContext, m any)
	Prelaunch   func(n int) error // n-th Prelaunch call for this path (0-based)
	// PrelaunchCtx, if set, runs in OnPrelaunch with the real PrelaunchContext (before Prelaunch decides the result)
	PrelaunchCtx func(a *Act, ctx vivid.PrelaunchContext, n int)
	PreRestart   func(a *Act) error
	Restarted    func(a *Act) error
	Options      []vivid.ActorOption
	// Wrap, if set, wraps the scripted actor before it is handed to ActorOf / returned by the provider (e.g. with
	// vivid.NewComplexCombinationActor and the New*Actor helpers of the public API)
	Wrap func(inner vivid.Actor) vivid.Actor
}

// Act is one actor instance.
type Act struct {
	W         *World
	S         *Script
	Inst      int
	Path      string
	Count     map[string]int // per-instance state ("state reset" / "state intact" checks)
	Beh       string
	ChildRefs map[string]vivid.ActorRef
}

func (w *World) NewAct(s *Script) *Act {
	w.instSeq++
	return &Act{W: w, S: s, Inst: w.instSeq, Count: map[string]int{}, ChildRefs: map[string]vivid.ActorRef{}}
}

// Spawn options for a script.
func (w *World) OptionsFor(s *Script) (vivid.Actor, []vivid.ActorOption) {
	a := w.NewAct(s)
	var actor vivid.Actor = a
	if s.Wrap != nil {
		actor = s.Wrap(a)
	}
	opts := []vivid.ActorOption{vivid.WithActorName(s.Name)}
	if s.Strategy != nil {
		opts = append(opts, vivid.WithActorSupervisionStrategy(s.Strategy))
	}
	if s.UseProvider {
		opts = append(opts, vivid.WithActorProvider(vivid.ActorProviderFN(func() vivid.Actor {
			n := w.NewAct(s)
			n.Path = a.Path
			w.Provided[a.Path]++
			if s.Wrap != nil {
				return s.Wrap(n)
			}
			return n
		})))
	}
	opts = append(opts, s.Options...)
	return actor, opts
}

// SpawnRoot spawns s as a child of the root through System.ActorOf.
func (w *World) SpawnRoot(s *Script) (vivid.ActorRef, error) {
	a, opts := w.OptionsFor(s)
	ref, err := w.Sys.ActorOf(a, opts...)
	if err == nil {
		w.seg[ref.GetPath()] += 0
	}
	return ref, err
}

// SpawnChild spawns s under ctx.
func (a *Act) SpawnChild(ctx vivid.ActorContext, s *Script) (vivid.ActorRef, error) {
	c, opts := a.W.OptionsFor(s)
	ref, err := ctx.ActorOf(c, opts...)
	if err == nil {
		a.ChildRefs[s.Name] = ref
	}
	return ref, err
}

func (a *Act) OnPrelaunch(ctx vivid.PrelaunchContext) error {
	n := a.W.Prelaunched[a.S.Name]
	a.W.Prelaunched[a.S.Name]++
	if a.S.PrelaunchCtx != nil {
		a.S.PrelaunchCtx(a, ctx, n)
	}
	if a.S.Prelaunch != nil {
		return a.S.Prelaunch(n)
	}
	return nil
}

func (a *Act) OnPreRestart(ctx vivid.RestartContext) error {
	if a.S.PreRestart != nil {
		return a.S.PreRestart(a)
	}
	return nil
}

func (a *Act) OnRestarted(ctx vivid.RestartContext) error {
	if a.S.Restarted != nil {
		return a.S.Restarted(a)
	}
	return nil
}

// Record logs what the behaviour sees.
func (a *Act) Record(ctx vivid.ActorContext) {
	w := a.W
	path := ctx.Ref().GetPath()
	a.Path = path
	t, d := describe(ctx.Message())
	s := ""
	if snd := ctx.Sender(); snd != nil {
		s = snd.GetPath()
	}
	w.seq++
	e := Entry{At: vrt.Now(), Seq: w.seq, Actor: path, Seg: w.seg[path], Inst: a.Inst, Beh: a.Beh, Type: t, Detail: d, Sender: s}
	w.Entries = append(w.Entries, e)
	incs := w.Incs[path]
	if len(incs) == 0 || incs[len(incs)-1].Ctx != ctx || w.RestartedPending[path] {
		incs = append(incs, &Inc{Path: path, Ctx: ctx, Restarted: w.RestartedPending[path]})
		w.Incs[path] = incs
		w.RestartedPending[path] = false
	}
	cur := incs[len(incs)-1]
	cur.Entries = append(cur.Entries, e)
	if !w.Quiet || verbose {
		w.X.Logf("see %s", e.String())
	}
}

func (a *Act) OnReceive(ctx vivid.ActorContext) {
	a.Beh = ""
	a.dispatch(ctx)
}

// Alt returns a Become-able behaviour that records under name and then dispatches normally.
func (a *Act) Alt(name string) vivid.Behavior {
	return func(ctx vivid.ActorContext) {
		a.Beh = name
		a.dispatch(ctx)
	}
}

func (a *Act) dispatch(ctx vivid.ActorContext) {
	w := a.W
	path := ctx.Ref().GetPath()
	w.InHandler[path]++
	if w.InHandler[path] > 1 {
		w.X.Fail("one-at-a-time", "two behaviour invocations of %s in progress", path)
	}
	defer func() { w.InHandler[path]-- }()
	a.Record(ctx)
	if a.S.UseProvider {
		w.providerPaths[path] = true
	}
	switch m := ctx.Message().(type) {
	case *vivid.OnLaunch:
		for _, cs := range a.S.Children {
			if _, err := a.SpawnChild(ctx, cs); err != nil {
				w.X.Logf("spawn %s under %s failed: %v", cs.Name, path, err)
			}
		}
		if a.S.Launch != nil {
			a.S.Launch(a, ctx)
		}
	case *vivid.OnKill:
		if a.S.OnKill != nil {
			a.S.OnKill(a, ctx, m)
		}
	case *vivid.OnKilled:
		if a.S.OnKilled != nil {
			a.S.OnKilled(a, ctx, m)
		}
	case Msg:
		a.Count["msgs"]++
		if a.S.OnMsg != nil {
			a.S.OnMsg(a, ctx, m)
		}
	default:
		if a.S.OnOther != nil {
			a.S.OnOther(a, ctx, m)
		}
	}
}

// Decider builds a strategy that always returns decision and records each consultation.
func (w *World) Decider(supervisor string, oneForAll bool, decision vivid.SupervisionDecision) vivid.SupervisionStrategy {
	dm := vivid.SupervisionStrategyDecisionMakerFN(func(ctx vivid.SupervisionContext) (vivid.SupervisionDecision, string) {
		c := "?"
		if f := ctx.Child().First(); f != nil {
			c = f.GetPath()
		}
		if w.BeforeDecision != nil {
			w.BeforeDecision(supervisor, c) // a decision maker is user code: it may take arbitrarily long
		}
		w.Decisions = append(w.Decisions, fmt.Sprintf("%s<-%s:%s", supervisor, c, decision.String()))
		if !w.Quiet || verbose {
			w.X.Logf("decide %s<-%s:%s", supervisor, c, decision.String())
		}
		return decision, "scripted"
	})
	if oneForAll {
		return vivid.OneForAllStrategy(dm)
	}
	return vivid.OneForOneStrategy(dm)
}

// verbose (env VSYS_VERBOSE) overrides World.Quiet when a recorded schedule is replayed for diagnosis.
var verbose = os.Getenv("VSYS_VERBOSE") != ""

// Coarse is the configuration of actor-level exploration: switches between messages only.
func Coarse(stepBudget int) vrt.Config {
	return vrt.Config{Coarse: true, Cost: vrt.CostDelay, StepBudget: stepBudget, SpinLimit: 200}
}

// CoarseSetup makes HandleEnvelop entry a switch point.
func CoarseSetup() {
	vrt.SwitchOnEnter("actor.(*Context).HandleEnvelop")
}

// AllowGuardian is the AllowBlocked entry for the system's context-guardian goroutine.
const AllowGuardian = "go@system.go"

// CoarseSetupSends additionally makes every mailbox Enqueue a switch point, so that another
// actor can run between two sends of one handler.
func CoarseSetupSends() {
	CoarseSetup()
	vrt.SwitchOnEnter("mailbox.(*UnboundedMailbox).Enqueue")
	vrt.SwitchOnEnter("actor.(*eventStream).Publish")
}

// CoarseSends is Coarse plus a switch point right after a mailbox elects a new processing
// goroutine (i.e. right after a send to an idle actor).
func CoarseSends(stepBudget int) vrt.Config {
	c := Coarse(stepBudget)
	c.SwitchOnSpawn = true
	return c
}
