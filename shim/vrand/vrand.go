// Package vrand replaces math/rand and math/rand/v2 in instrumented packages by one legal,
// deterministic outcome: the identity shuffle, zero for every draw. (A Choose-driven variant
// can be switched on by harnesses through Hook.)
package vrand

// Hook, when set, decides draws: it receives n (exclusive upper bound, 0 = "a float") and
// returns a value in [0,n).
var Hook func(n int, what string) int

func draw(n int, what string) int {
	if Hook != nil && n > 1 {
		return Hook(n, what)
	}
	return 0
}

func Shuffle(n int, swap func(i, j int)) {
	if Hook == nil {
		return
	}
	for i := n - 1; i > 0; i-- {
		j := draw(i+1, "shuffle")
		// default draw 0 would not be the identity; map draw d to index i-d so that 0 = identity
		j = i - j
		if j != i {
			swap(i, j)
		}
	}
}

func Perm(n int) []int {
	p := make([]int, n)
	for i := range p {
		p[i] = i
	}
	Shuffle(n, func(i, j int) { p[i], p[j] = p[j], p[i] })
	return p
}

func Float64() float64 {
	// 0.5 = "no jitter" for the symmetric jitter formula (rand*2-1) used by the back-off
	return 0.5
}
func Float32() float32        { return 0.5 }
func Int() int                { return 0 }
func Intn(n int) int          { return draw(n, "intn") }
func IntN(n int) int          { return draw(n, "intn") }
func Int31() int32            { return 0 }
func Int31n(n int32) int32    { return int32(draw(int(n), "intn")) }
func Int32() int32            { return 0 }
func Int32N(n int32) int32    { return int32(draw(int(n), "intn")) }
func Int63() int64            { return 0 }
func Int63n(n int64) int64    { return int64(draw(int(n), "intn")) }
func Int64() int64            { return 0 }
func Int64N(n int64) int64    { return int64(draw(int(n), "intn")) }
func Uint32() uint32          { return 0 }
func Uint32N(n uint32) uint32 { return uint32(draw(int(n), "intn")) }
func Uint64() uint64          { return 0 }
func Uint64N(n uint64) uint64 { return uint64(draw(int(n), "intn")) }
func UintN(n uint) uint       { return uint(draw(int(n), "intn")) }
func Seed(int64)              {}
func NormFloat64() float64    { return 0 }
func ExpFloat64() float64     { return 1 }
